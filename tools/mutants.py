#!/venv/bin/python
"""
Self-validation of the checks (DESIGN.md section 6): apply one textual mutation to a scratch
copy of the repository (outside /repo and /verif), run the property's quick check against
the copy (VERIF_REPO) and require exit 1 with a VIOLATION line whose replay file
reproduces; the copy is deleted afterwards.

    tools/mutants.py                 # all mutants in tools/mutants.json
    tools/mutants.py C07             # those of one property
    tools/mutants.py --id c07-side   # one mutant
    tools/mutants.py --suite ...     # additionally run the pinned test-suite on the mutant

Never registered in MANIFEST.json; writes no evidence (--no-evidence).
"""

import argparse
import json
import os
import re
import shutil
import subprocess
import sys
import tempfile
import time
from concurrent.futures import ThreadPoolExecutor

VERIF = os.path.dirname(os.path.dirname(os.path.abspath(__file__)))
REPO = "/repo"


def apply_mutation(root, m):
    path = os.path.join(root, m["file"])
    src = open(path, encoding="utf-8").read()
    old, new = m["old"], m["new"]
    cnt = src.count(old)
    want = m.get("occurrence")  # 1-based index of the occurrence to replace; default: unique
    if want is None:
        if cnt != 1:
            raise SystemExit(f"{m['id']}: pattern occurs {cnt} times in {m['file']}: {old!r}")
        src = src.replace(old, new)
    else:
        if cnt < want:
            raise SystemExit(f"{m['id']}: pattern occurs only {cnt} times")
        idx = -1
        for _ in range(want):
            idx = src.index(old, idx + 1)
        src = src[:idx] + new + src[idx + len(old):]
    open(path, "w", encoding="utf-8").write(src)


def run_one(m, suite=False, tier="quick", seed="0"):
    t0 = time.time()
    tmp = tempfile.mkdtemp(prefix="vfmut_", dir="/tmp")
    try:
        shutil.copytree(os.path.join(REPO, "score_analysis"), os.path.join(tmp, "score_analysis"))
        apply_mutation(tmp, m)
        res = dict(id=m["id"], prop=m["prop"])
        if suite:
            shutil.copytree(os.path.join(REPO, "tests"), os.path.join(tmp, "tests"))
            for f in ("pytest.ini", "setup.cfg", "pyproject.toml"):
                if os.path.exists(os.path.join(REPO, f)):
                    shutil.copy(os.path.join(REPO, f), tmp)
            p = subprocess.run(["/venv/bin/python", "-m", "pytest", "-q", "-x", "-p",
                                "no:cacheprovider", "tests"], cwd=tmp, capture_output=True,
                               text=True, env=dict(os.environ, PYTHONDONTWRITEBYTECODE="1"))
            res["suite_passes"] = p.returncode == 0
            res["suite_tail"] = p.stdout.strip().splitlines()[-1:] if p.stdout else []
        env = dict(os.environ, VERIF_REPO=tmp, VERIF_SEED=str(seed),
                   VERIF_REPLAY_DIR=os.path.join("replays", "mut-" + m["id"]))
        props = m["prop"] if isinstance(m["prop"], list) else [m["prop"]]
        res["checks"] = {}
        for pid in props:
            p = subprocess.run([os.path.join(VERIF, "check"), pid, "--tier", tier, "--no-evidence"],
                               cwd=VERIF, capture_output=True, text=True, env=env)
            viol = [ln for ln in p.stdout.splitlines() if ln.startswith("VIOLATION")]
            ok = p.returncode == 1 and bool(viol)
            rep_ok = None
            if ok:
                rp = re.search(r"replay=(\S+)", viol[0]).group(1)
                q = subprocess.run([os.path.join(VERIF, "check"), pid, "--replay", rp],
                                   cwd=VERIF, capture_output=True, text=True, env=env)
                rep_ok = q.returncode == 1
                # the same replay must pass on the unmutated tree
                q2 = subprocess.run([os.path.join(VERIF, "check"), pid, "--replay", rp],
                                    cwd=VERIF, capture_output=True, text=True)
                res.setdefault("replay_on_clean", {})[pid] = q2.returncode
                if q2.returncode == 2:
                    res.setdefault("clean_replay_output", []).append(q2.stdout[-1500:] + q2.stderr[-1500:])
                try:
                    os.remove(os.path.join(VERIF, rp))
                except OSError:
                    pass
            res["checks"][pid] = dict(rc=p.returncode, killed=ok, replay_reproduces=rep_ok,
                                      first=[ln for ln in p.stdout.splitlines()
                                             if ": " in ln and not ln.startswith(("KNOWN-FINDING", "HARNESS-NOTE"))][:1],
                                      tail=p.stdout.strip().splitlines()[-1:])
        res["killed"] = any(c["killed"] for c in res["checks"].values())
        res["wall_s"] = round(time.time() - t0, 1)
        return res
    finally:
        shutil.rmtree(tmp, ignore_errors=True)


def main():
    ap = argparse.ArgumentParser()
    ap.add_argument("props", nargs="*")
    ap.add_argument("--id", action="append")
    ap.add_argument("--suite", action="store_true")
    ap.add_argument("--tier", default="quick")
    ap.add_argument("--seed", default="0")
    ap.add_argument("--par", type=int, default=2)
    ap.add_argument("--file", default=os.path.join(VERIF, "tools", "mutants.json"))
    a = ap.parse_args()
    muts = json.load(open(a.file))
    sel = []
    for m in muts:
        props = m["prop"] if isinstance(m["prop"], list) else [m["prop"]]
        if a.id and m["id"] not in a.id:
            continue
        if a.props and not (set(props) & set(p.upper() for p in a.props)):
            continue
        sel.append(m)
    bad = 0
    with ThreadPoolExecutor(max_workers=a.par) as ex:
        for res in ex.map(lambda m: run_one(m, a.suite, a.tier, a.seed), sel):
            flag = "KILLED " if res["killed"] else "SURVIVED"
            if not res["killed"]:
                bad += 1
            extra = ""
            if "suite_passes" in res:
                extra = f" suite_passes={res['suite_passes']}"
            print(f"{flag} {res['id']:28s} {res['wall_s']:6.1f}s{extra} "
                  + " ".join(f"{k}:rc={v['rc']},replay={v['replay_reproduces']}"
                             for k, v in res["checks"].items())
                  + (f" clean_replay={res.get('replay_on_clean')}" if res.get("replay_on_clean") else ""))
            for out in res.get("clean_replay_output", []):
                print("      CLEAN-REPLAY-RC2: " + out.replace("\n", " | ")[:1500])
            for k, v in res["checks"].items():
                if v["first"]:
                    print("      " + v["first"][0][:200])
            sys.stdout.flush()
    print(f"{len(sel) - bad}/{len(sel)} killed")
    return 1 if bad else 0


if __name__ == "__main__":
    sys.exit(main())
