#!/venv/bin/python
"""tools/make_seed_prompts.py <round-dir> <letters>: creates one scratch worktree of /repo per property under
<round-dir>/CNN and a prompt file <round-dir>/prompt_CNN.txt for an independent sub-agent (property text,
workspace rules, one-line summaries of the changes earlier agents wrote). Used for the seeding rounds of
DESIGN.md 7.5; nothing from /verif's checks goes into a prompt."""
import glob, json, os, re, subprocess, sys

root, letters = sys.argv[1], sys.argv[2]
only = set(sys.argv[3].split(",")) if len(sys.argv) > 3 else None
a, b = letters.split(",")
os.makedirs(root, exist_ok=True)
props = {json.loads(l)["id"]: json.loads(l) for l in open("/verif/properties.jsonl")}
VARIES = (
    "input dtypes/containers/memory layout (float16/32/64, long double, signed and unsigned integers, bool, Python lists, "
    "pandas Series with non-positional index, Fortran/strided/transposed arrays, classes held in different dtypes), value scales "
    "from 2^-260 to 2^250 incl. subnormal numbers, the largest finite float and integers beyond 2^53, sizes from 0 to 1e6 (incl. "
    "sizes where float expressions round the other way, vectors of thousands of targets, hundreds of classes or groups), counts "
    "beyond 2^31 and 2^53, exact powers of two and zero-centred data, numeric arguments written as Python ints, NumPy scalars, "
    "0-d arrays, lists; objects produced by the library itself (bootstrap samples, swap()) as subjects; call sequences on one "
    "object with shared/re-used/edited arrays, caches and re-assigned attributes; positional vs keyword arguments, all aliases, "
    "run-time (non-interned) option strings, documented module-level settings re-assigned at run time, user callables in every "
    "shape (function, lambda, partial, bound method, callable object, unhashable dataclass); seeded replays of the global NumPy "
    "RNG against fresh objects and against explicitly spelt-out configurations; confusion matrices in narrow integer dtypes and "
    "with float cells up to 1e100; DataFrames with shuffled index, reordered columns and missing values in unused columns; and "
    "it compares against independent (exact rational / counting) reference implementations with relative tolerances; results "
    "handed out by earlier calls are re-checked after later calls; caller arrays are passed read-only; labels come as lists, "
    "Series, bool/int/str/float with any pos_label; target/alpha arrays come in Fortran order and with 1e5 entries; objects of "
    "user subclasses; one class packed 1e-12 apart inside a gap of the other; 1e5-1e16 easy samples; group names given as "
    "subsets/permutations, 64-bit ids, absent classes passed as []; Unicode look-alike strings, named row indexes; smoothing "
    "configurations; unused configuration fields set; integer-typed thresholds and parameters everywhere; targets, alphas and "
    "thresholds held as float16/float32/long double scalars and arrays; flags given as numpy.bool_/0/1; labels that are close "
    "but different floats, DocLabel members, 64-bit ids of mixed signedness; floating-point warnings escalated to errors; "
    "metrics that return one re-used buffer or are named like methods; failing calls inside call sequences; user subclasses "
    "with their own constructor or overridden rates; curves of 65536+ points and counts at the top of narrow integer types; "
    "thousands of scores 1e-12 apart inside gaps of 1e5+ other scores; the largest finite float as score; proportion sampling "
    "checked statistically; results that alias or are views of caller arrays; missing labels (None/NaN) and date-typed "
    "classes; 1e7-pair pointwise inputs; classes consisting of the two scores -1e308/1e308; neighbouring floats at powers of "
    "two; conventions (score_class/equal_class) re-assigned as plain strings after construction; crossings near the end of a "
    "packed run; scores in int8/int16/int32 at the ends of the type's range; sources with a class that has easy samples only; "
    "metrics whose result type differs between groups or that return transposed/Fortran-ordered arrays; infinite user "
    "thresholds; counts held as np.int8(127)/np.uint8(255); callables that depend on the whole vector of evaluation points; "
    "2-D label/score arrays; long-double values that differ from a bound by less than double precision; models edited by the "
    "caller between two identical calls; integer- and bool-typed sample values for interpolation; arrays in non-native byte "
    "order; one array object serving as both classes; disjoint class ranges either way round with thousands of scores; "
    "64-bit integer scores at both ends of their range; float stacks mixing matrices 2^1200 apart; boolean masks against "
    "integer classes; alias names of axes and thresholds everywhere; easy counts as narrow / unsigned NumPy integers; "
    "hundreds of draws from sources with 1-3 scored samples per class; grouped samples rebuilt from their public arrays; "
    "subnormal sample values; interval-valued metrics in showbias; adjacent 64-bit ids as labels; float32 / float16 label "
    "columns; classes separated except for one pair exchanged by 1e-13; proportion subsamples as subjects; classes of 1e7 "
    "to 1e12 samples for every band function")
for pid, p in props.items():
    if only and pid not in only:
        continue
    wt = f"{root}/{pid}"
    if not os.path.exists(wt):
        subprocess.run(["git", "-C", "/repo", "worktree", "add", "-q", "--detach", wt, "HEAD"], check=True)
    prev = []
    for d in sorted(glob.glob(f"/verif/seeded/{pid.lower()}-*/")):
        n = os.path.join(d, "notes.md")
        if os.path.exists(n):
            txt = re.sub(r"\s+", " ", open(n).read().strip())
            prev.append(f"- {os.path.basename(d.rstrip('/'))}: {txt[:260]}")
    prevtxt = "\n".join(prev) if prev else "(none)"
    low = pid.lower()
    txt = f"""You are helping to evaluate a verification effort for the Python library `score_analysis` (martinsbruveris/score-analysis: binary/multiclass classification metrics, threshold setting, EER, AUC, ROC curves, bootstrap confidence intervals). Your job is to act as a realistic source of *regressions*: produce TWO independent small changes to the library, each of which breaks the semantic property below while the library still imports and its existing test-suite still passes. This is a TENTH round. Nine earlier rounds produced the changes summarised at the end, and the verification effort caught all of them in the end; by now it varies {VARIES}. Find something it still does not look at. Take your time to read the code the property depends on line by line and look for an input condition *inside the stated domain* that none of the above would produce, an interaction between two functions, or a semantic slip (wrong one of two similar quantities, off-by-one in a rarely taken branch, a condition that is slightly too wide or too narrow) that only shows for a structured kind of input.

## The property ({p['id']}: {p['title']})
Statement: {p['statement']}
Quantified over: {p['quantifier']['text']}
Why the existing tests cannot settle it: {p['why_tests_cant']}
Code it is anchored in: {', '.join(p['anchors']['files'])} (changes in other files under score_analysis/ that this behaviour depends on are fine too)

## Your workspace
* A scratch git worktree of the repository: `{wt}` (work ONLY there; never touch `/repo`, never read or write anything under `/verif`; there is no network). Do not delete or recreate the worktree.
* Python is `/venv/bin/python`. NOTE: `/venv` also contains an *installed copy* of score_analysis, so always run things from inside the worktree with the worktree first on the path: `cd {wt} && PYTHONPATH={wt} /venv/bin/python demo.py`.
* The existing test-suite: `cd {wt} && /venv/bin/python -m pytest -q -p no:cacheprovider` (384 tests, ~25 s; it must still pass, unedited, with each of your changes applied).

## What to produce
Two changes (call them `{a}` and `{b}`), with different mechanisms. Each change must
1. touch only files under `score_analysis/` (a few lines; a plausible refactoring slip, optimisation, clean-up or well-meant "fix" - not an obviously malicious edit, no special-casing of magic values purely to hide);
2. keep all 384 existing tests passing;
3. break the property above for some inputs **within its stated domain** (re-read "Quantified over"; do not rely on NaN/inf scores or on inputs the documentation rules out) and need something specific to manifest;
4. come with a demonstration program that exits with status 1 (printing what went wrong) when the change is applied and exits 0 without it.

For each change write, inside the worktree, a directory `_seeded/{low}-{a}/` (resp. `-{b}/`) containing
* `patch.diff` - output of `git diff -- score_analysis` with only that one change applied to a clean tree;
* `demo.py` - the demonstration. It must locate the library through the environment variable `SA_ROOT` if set (`sys.path.insert(0, os.environ.get('SA_ROOT', '{wt}'))` before importing score_analysis, and assert `score_analysis.__file__` starts with that root), use only numpy/scipy/pandas and the library, be deterministic (seed any RNG), run in under a minute, and check the property itself on the specific inputs (not just compare against a hard-coded number where you can avoid it);
* `notes.md` - 5-10 lines: what the change is, why the tests do not notice, exactly what is needed for it to manifest, and why the triggering inputs are inside the property's stated domain.

Procedure for each change: make the edit, run the test-suite, run the demo (must exit 1), save `git diff -- score_analysis > _seeded/.../patch.diff`, then `git checkout -- score_analysis` and run the demo again (must exit 0). Finish with a clean tree (`git status` shows only the untracked `_seeded/` directory). Do not commit anything.

## Changes from the earlier rounds (do NOT repeat these mechanisms or triggers)
{prevtxt}

If, while exploring, you come across inputs inside the stated domain on which the UNMODIFIED library already violates the property, do not use them for your demos, but describe them precisely (a minimal reproduction) at the end of your final summary.

When done, reply with a short summary: for each change the file/function touched, what triggers the violation, and confirmation of the runs (tests pass with change; demo exit 1 with change; demo exit 0 without)."""
    open(f"{root}/prompt_{pid}.txt", "w").write(txt)
print("ok", len(props))
