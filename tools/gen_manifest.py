#!/venv/bin/python
"""Regenerates MANIFEST.json from the table below and validates it against the schema."""
import json
import os
import sys

VERIF = os.path.dirname(os.path.dirname(os.path.abspath(__file__)))

# id -> (technique, level text, level note, design section)
CHECKS = {}


def add(pid, technique, text, note, engine="hypothesis+enumeration"):
    CHECKS[pid] = dict(technique=technique, text=text, note=note, engine=engine)


add("C01",
    "property-based testing: Hypothesis-generated score sets/thresholds + exhaustive "
    "enumeration of small order types and of narrow-integer scores at the ends of their dtype with thresholds beyond, against a counting reference model",
    "Exploration: every generated (scores, thresholds, config, easy counts) case is compared "
    "cell by cell with a brute-force count by the README decision rule; the finite sub-domain "
    "of all order types of <=3+3 scores over 3 values is enumerated completely in the thorough "
    "tier. Exact integer oracle, so any disagreement is a violation; absence is not proved.",
    "Trusts Python's comparison operators and float division as the reference; int-dtype "
    "scores are small integers; code under test is imported from /repo's working tree.")

add("C02",
    "property-based testing: Hypothesis-generated score sets/targets; round-trip oracle through "
    "the object's own metric, coherence relations between the three methods, monotonicity",
    "Exploration: for every generated (scores, easy counts, config, metric, method, target) the "
    "metric at the returned threshold is compared with the clipped target to within exactly one "
    "sample (bracketing at +-3 ulps for ties); lower/higher/linear coherence and monotonicity in "
    "r are asserted. Absence of violations is not proved.",
    "|score| <= 1e6; near-ties (<16 ulps, unequal) skipped and counted; the object's own rate "
    "methods are trusted here (they are checked by C01).")

add("C03",
    "property-based testing + exhaustive enumeration of class/easy sizes; exact-equality oracle "
    "against the brute-force achievable extreme of the counting reference (for 64-bit integer and "
    "long-double scores: against the rate the object itself reports at the returned threshold)",
    "Exploration: extreme targets (r<=0, r>=1) on generated score sets for 6 metrics x 4 configs "
    "x 3 methods, exact float equality with the brute-force min/max of the metric; all size pairs "
    "(N<=300, easy<=60) enumerated in the thorough tier because the failure modes depend on "
    "sizes only.",
    "|score| <= 1e6; brute-force extreme is cross-checked against the closed-form range.")

add("C04",
    "property-based testing: Hypothesis-generated stacked 2x2 matrices; cell-wise reference "
    "recomputation, algebraic identities, exact NaN locus, closed-form CI with stdlib normal",
    "Exploration: definitions, complements, [0,1] range, NaN-iff-zero-denominator, CI centre / "
    "half-width / nesting / mirroring / aliases are asserted on every generated matrix stack "
    "(int64 and float64, size-0 axes, forced zero rows/columns).",
    "statistics.NormalDist as the independent normal quantile; tolerances 1e-12 (algebra), 1e-9 "
    "relative (CI).")

add("C05",
    "property-based testing: Hypothesis-generated class sets/labels/weights and equivalent "
    "renderings; dictionary-count reference model, differential between renderings, conservation "
    "and permutation-equivariance relations",
    "Exploration: entry [i,j] against dictionary counting; dict/DataFrame/list renderings with "
    "shuffled orders must give one matrix; one-vs-all sums, per-class metric shapes, as_dict "
    "slices, class-permutation equivariance and accuracy=trace/pop on stacked matrices.",
    "Per-class expected values reuse score_analysis.metrics on an independently built one-vs-all "
    "array (binary formulas are C04's subject).")

add("C06",
    "property-based testing: Hypothesis-generated tie-free score sets for the crossing relation "
    "and metamorphic (affine / negation) pairs; arbitrary tied and ulp-adjacent inputs for the "
    "zero-EER implication; enumerated families of large / packed / barely inverted classes and "
    "library-made subsamples as subjects, rates counted on the arrays",
    "Exploration: FPR(t) and FNR(t) by the same object within one sample of e, e <= min hard "
    "fraction, equivariance under increasing affine maps and direction reversal; for every input "
    "a reported EER of exactly 0 must come with FPR(t) = FNR(t) = 0.",
    "Tie-free inputs have separation >= 1e-3 (|score| <= ~2e6); tolerances 1/N+1e-6 (bisection "
    "xtol), 1e-8 on e, 1e-6*range on t.")

add("C07",
    "property-based testing: Hypothesis-generated score sets; exact rational Mann-Whitney and "
    "step-ROC-area reference models, additivity and axis-complement metamorphic relations",
    "Exploration: auc() equals the exact Mann-Whitney statistic (ties anywhere, easy samples, "
    "4 configs); partial AUC equals the exact rational step area on generated intervals, is "
    "additive, bounded by the width, and obeys the y-/x-complement and axis-swap relations.",
    "Reference models use fractions.Fraction (no rounding of their own); tolerance 1e-12 / 1e-9.")

add("C08",
    "property-based testing: metamorphic relations between pairs of executions (class swap, "
    "negation with flipped score_class, exact and general increasing affine maps) on "
    "Hypothesis-generated score sets, incl. score types wider than a double, and an enumerated family of exact affine maps with large offsets for the EER threshold",
    "Exploration: swap() reverses every confusion matrix and exchanges the complementary rates "
    "exactly; negated objects give identical matrices at -t and negated linear thresholds; affine "
    "maps map all returned thresholds (3 methods) and leave matrices, AUC and (tie-free) EER "
    "unchanged. Exact maps (power-of-two scale, integer shift, dyadic scores) are compared "
    "bit-exactly.",
    "General maps are compared only at thresholds >1e-9*scale away from a score and only when the "
    "map does not merge distinct scores through rounding; negation equivariance of thresholds for "
    "method=linear only, EER for tie-free inputs only (as the property states).")

add("C09",
    "property-based testing: differential between a Scores object with virtual easy samples and "
    "its twin with the same samples materialised as extreme scores",
    "Exploration: confusion matrices at every threshold inside the materialised range (scores, "
    "+-1ulp, midpoints), full and partial AUC, and thresholds for every target on the whole grid "
    "j/T (6 metrics) are compared between the two objects for generated score sets and easy "
    "counts, in all 4 configs.",
    "Thresholds compared only for targets whose materialised threshold lies within the range of "
    "the relevant scored samples (as the property states); tolerance 1e-9*range, 1e-12 for AUC.")

add("C10",
    "property-based testing: Hypothesis @given for shapes / elementwise-equals-scalar / aliases, "
    "and a Hypothesis rule-based state machine over call histories with bit-identity, memo and "
    "fresh-clone invariants (histories replayed by a plain interpreter); enumerated families of long vectors and of 2-d / 3-d arrays beyond 1e4 entries",
    "Exploration: every generated array shape (0-d..3-d, size-0 and size-1 axes) gives results of "
    "the documented shape whose elements equal the scalar calls; scalar inputs give plain scalars; "
    "over generated histories of up to 30 public calls (incl. random bootstrap calls) on one "
    "Scores/GroupScores object, object state, constructor inputs and argument arrays stay "
    "bit-identical and every result equals both its earlier occurrence and the same query on a "
    "freshly built clone.",
    "Histories are generated by Hypothesis' stateful engine but executed at teardown by the same "
    "interpreter that replays JSON histories; bootstrap_ci is exercised only with non-empty "
    "metric shapes; single_pass+by_group only where every (group, class) stratum is non-empty.",
    engine="hypothesis-stateful")

add("C11",
    "property-based testing: Hypothesis @given over (source, sampling configuration, RNG seed) "
    "with exact per-sample invariants, a Hypothesis state machine for sample-of-a-sample "
    "histories, a bounded-error statistical test of unbiasedness, and enumerated families (600 draws "
    "from sources with 1-3 scored samples per class; sources with an easy-only class)",
    "Exploration: every generated sample is checked for flags, class membership, sortedness, "
    "metrics = direct counting, at-least-one scored sample, total count, strata, proportion "
    "sizes / no replacement and the documented dynamic choice; unbiasedness (mean stratum sizes, "
    "mean multiplicity 1 of every score, every score reachable) is decided by Bernstein bounds "
    "with a stated false-alarm budget (<1e-8 per run) and a confirmation run.",
    "np.random global state is seeded per case; statistical clause needs both hard classes >= 30 "
    "so that the at-least-one correction cannot bias the means.",
    engine="hypothesis-stateful")

add("C12",
    "property-based testing: Hypothesis @given with a triple-multiset / filtered-data reference "
    "model, differential per-group vs overall, and a Hypothesis state machine over swap / "
    "resample / index / group_cm histories; enumerated family of group_names given as a subset in a narrower dtype",
    "Exploration: the multiset of (score, group, class) triples is tracked through construction "
    "(3 routes), swap and all nine sampling mode x stratification combinations; per-group "
    "matrices equal counting on the filtered input and sum to the overall matrix; group name "
    "list and per-group counts are preserved as documented; groupwise equals group-by-group "
    "evaluation.",
    "Scores are distinct where attachment is traced through sampling; single_pass only where "
    "every sampled (group, class) stratum is non-empty (as the property states); labels compared "
    "by value.",
    engine="hypothesis-stateful")

add("C13",
    "property-based testing: Hypothesis-generated replicate arrays; independent re-implementation "
    "of the documented quantile/BC/BCa formulas as reference, plus metamorphic corollaries "
    "(NaN rows, permutation, affine maps, nesting, per-component independence) and an enumerated family of replicates scaled by powers of two down to 2^-346",
    "Exploration: limits agree with a stdlib-only re-implementation of the documented formulas "
    "to 1e-9*scale for every generated (replicates, estimate, alpha, method), including constant, "
    "tied, skewed, outlier-laden and NaN-containing data and estimates outside the range; derived "
    "claims are asserted separately so that a wrong reference cannot hide behind them.",
    "statistics.NormalDist / math.erfc as normal reference; BCa corollaries only where "
    "|a*(z0+z_alpha)| < 0.99; affine corollary only when the map is exact on the data.")

add("C14",
    "property-based testing: Hypothesis-generated objects/metrics/configurations; model-based "
    "oracle with a deterministic counting sampler, seeded replay differential for built-in "
    "samplers, differential against utils.bootstrap_ci for the CI wiring, identity-sampler collapse",
    "Exploration: row j is the metric of the j-th sample (counting sampler), built-in samplers "
    "are replayed by hand under the same seed and must give the same rows, bootstrap_ci equals the "
    "documented formula applied to those rows with the original's metric, collapses under the "
    "identity sampler for all three methods, and results are reproducible per seed and differ "
    "across seeds.",
    "bootstrap_ci is compared both with utils.bootstrap_ci and with the independent stdlib "
    "re-implementation of the documented formulas (C13's reference); several configurations in a "
    "row on one object are compared with fresh equal objects; 'different seeds give different "
    "rows' has collision probability < 1e-10 by construction of the metric.")

add("C15",
    "property-based testing: Hypothesis-generated score sets and support specifications with all "
    "8 x-axes x 4 configs enumerated per case; round-trip oracle (curve rates = object's rates at "
    "curve thresholds), multiset containment, counts, monotonicity",
    "Exploration: for every generated combination of supplied fnr/fpr/thresholds (None, empty, "
    "values incl. out-of-range) and nb_points the curve's rates equal the object's rates at its "
    "thresholds exactly, the chosen x-axis view is non-decreasing for both score directions, the "
    "thresholds are exactly the supplied/assigned ones (or nb_points / all scores), and the "
    "derived views are complements/aliases.",
    "threshold_at_fnr/fpr of the same object define 'the thresholds that threshold setting "
    "assigns' (they are C02/C03's subject).")

add("C16",
    "property-based testing: Hypothesis-generated objects/supports/configurations; validity "
    "predicate over the returned bands for all four functions and an exact closed-form reference "
    "(double-loop envelope of pointwise rectangles) for roc_with_ci under the identity sampler",
    "Exploration: every band function returns on its documented arguments with rates matching "
    "thresholds and NaN-free ordered (n,2) bands (roc_with_ci also within [0,1]) under 5 built-in "
    "sampling configurations and the identity sampler; under the identity sampler roc_with_ci "
    "equals the closed form incl. the rule-of-three replacement exactly at observed rates 0/1. "
    "The closed form is also enumerated for every class size 1..400 (quick) / 1..3000 (thorough) "
    "plus 1e5..1e12 and on curves with 700-4200 support points. Two known findings "
    "(fixed_width_band_ci search initialisation) are excluded by narrow predicates and reported as "
    "KNOWN-FINDING.",
    "Closed form uses the object's own threshold_at_*/fnr/fpr; n of the rule of three may be scored "
    "or all samples (not stated by the property); fixed_width_band_ci only on spanning supports.")

add("C17",
    "property-based testing: Hypothesis-generated sample curves and targets with an exact "
    "rational piecewise-linear interpolant as reference model; differential oracle for "
    "threshold_at_metric against the inversion on harness-recomputed evaluation points",
    "Exploration: every returned point is verified to solve f(z)=t on the exact interpolant, to lie "
    "in the sampled range and to be in increasing order; transversal crossings must all be "
    "reported; targets that are not attained must give exactly the closest sample point; "
    "threshold_at_metric must equal the inversion applied to all scores / k evenly spaced points / "
    "the supplied points.",
    "Tolerance 1e-9*scale plus the rounding of z times the steepest slope; results are flattened "
    "(the closest-point branch returns shape (1,1), which the property does not rule out).")

add("C18",
    "property-based testing: Hypothesis-generated DataFrames; counting reference model per group, "
    "normalisation reference, identity-sampler collapse and a label-permuting custom sampler "
    "whose replicates the harness recomputes under the same seed (differential for the intervals)",
    "Exploration: row/column labels, entries for all 29 metric names, by_overall / by_min "
    "normalisation incl. zero divisors, frame immutability; with bootstrap: same labels, "
    "lower<=upper, collapse under the identity sampler, and equality with the documented CI "
    "formula applied to the normalised replicates of the reported value under a label-permuting "
    "sampler. One known finding (by_min + bootstrap) is excluded by a narrow predicate.",
    "Normalised entries only where the divisor is defined; label-permuting clause uses distinct "
    "scores and normalize None/by_overall; utils.bootstrap_ci is the CI formula (C13's subject).")

add("C19",
    "property-based testing: Hypothesis-generated genuine/fraud arrays; differential oracle "
    "against a plain Scores object, two-directional validation oracle (raises iff out of [0,1])",
    "Exploration: construction raises ValueError exactly when a generated score lies outside "
    "[0,1] (boundary values 0, 1, -0.0, 1+ulp, -1e-300 over-represented); otherwise every query "
    "equals the same query on the equivalent Scores object exactly, aliases/setters/from_labels "
    "and the label translations behave as stated.",
    "The underlying Scores semantics are C01-C09's subject; warnings about score_class are silenced.")

add("C20",
    "property-based testing: Hypothesis-generated model parameters; round-trip (inverse) oracles, "
    "exact rational floor reference for counts, harness-computed joint distribution validity",
    "Exploration: analytic FNR/FPR and threshold functions are mutually inverse to 1e-9, roc() is "
    "consistent with the model, from_metrics hits the requested rates and implied sizes, samples "
    "have the right size/direction and are reproducible; Bernoulli counts equal floor(n*p) by "
    "exact rationals; the correlated pair raises exactly for invalid joint distributions and "
    "reproduces both marginals within 3 draws.",
    "scipy.stats.norm is used by the code under test only; the oracle needs no normal reference "
    "(round trips). Joint probabilities within 1e-12 of 0 may go either way.")

NOT_YET = {}


def main():
    props = [json.loads(l) for l in open(os.path.join(VERIF, "properties.jsonl"))]
    checks = []
    na = []
    for p in props:
        pid = p["id"]
        if pid in CHECKS:
            c = CHECKS[pid]
            checks.append(dict(
                property_id=pid,
                quick_cmd=f"./check {pid} --tier quick",
                thorough_cmd=f"./check {pid} --tier thorough",
                evidence_file=f"evidence/{pid}.json",
                replay_cmd_template=f"./check {pid} --replay {{path}}",
                engine=c["engine"],
                level_claimed=dict(category="exploration", text=c["text"],
                                   design_ref=f"DESIGN.md section 3, {pid}"),
                level_note=c["note"],
                technique=c["technique"],
            ))
        else:
            na.append(dict(property_id=pid, reason=NOT_YET.get(
                pid, "check not built yet (work in progress; the design in DESIGN.md section 3 "
                     "applies property-based testing to it)")))
    man = dict(
        version=1,
        setup_cmd=("/venv/bin/pip install -q --no-index --find-links /opt/veriftools/wheels "
                   "hypothesis jsonschema >/dev/null 2>&1; /venv/bin/python tools/gen_manifest.py "
                   "--validate-only"),
        hooks=dict(
            guard="SCORE_ANALYSIS_VERIF",
            enable="no hooks or instrumentation are needed: every property is observable "
                   "through the public API; ./check exports SCORE_ANALYSIS_VERIF=1 but no source "
                   "reads it",
            baseline_off_cmd="cd /repo && /venv/bin/python -m pytest -ra -q -p no:cacheprovider "
                             "--timeout=900 --continue-on-collection-errors",
            source_commits=[],
            add_only=True,
        ),
        engines=[
            dict(name="hypothesis-stateful", path="vf/props/c10.py",
                 serves_properties=["C10", "C11", "C12"],
                 kind_free_text="Hypothesis RuleBasedStateMachine (run_state_machine_as_test with a "
                                "seeded machine class); rules record a JSON history that a plain "
                                "interpreter executes with invariants after every step"),
            dict(name="hypothesis+enumeration", path="vf/",
                 serves_properties=sorted(CHECKS),
                 kind_free_text="Hypothesis 6.168 @given / rule-based state machines over "
                                "constructed generators, plus itertools enumeration of finite "
                                "sub-domains, sharded over 16 processes; explicit reference-model, "
                                "metamorphic, differential and round-trip oracles; shrunk failures "
                                "become JSON replay files run by a plain interpreter"),
        ],
        checks=checks,
        not_applicable=na,
        notes="All checks: ./check CNN --tier quick|thorough, VERIF_SEED honoured, exit 0/1/2 "
              "(2 = harness error, never a violation). Known findings: KNOWN_FINDINGS.txt.",
    )
    path = os.path.join(VERIF, "MANIFEST.json")
    if "--validate-only" in sys.argv:
        man = json.load(open(path))
    else:
        with open(path, "w") as fh:
            json.dump(man, fh, indent=1)
            fh.write("\n")
    schema = "/root/.vp/MANIFEST.schema.json"
    if os.path.exists(schema):
        import jsonschema

        jsonschema.validate(man, json.load(open(schema)))
    ids = [c["property_id"] for c in man["checks"]] + [n["property_id"] for n in man.get("not_applicable", [])]
    assert sorted(ids) == sorted(p["id"] for p in props), "every property claimed or listed"
    print(f"MANIFEST ok: {len(man['checks'])} checks, {len(man.get('not_applicable', []))} not_applicable")


if __name__ == "__main__":
    main()
