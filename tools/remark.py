#!/venv/bin/python
"""tools/remark.py <seeded-id> <text>: records in seeded/<id>/meta.json how the change fared before the check was extended."""
import json, os, sys
p = os.path.join(os.path.dirname(os.path.dirname(os.path.abspath(__file__))), "seeded", sys.argv[1], "meta.json")
m = json.load(open(p))
m["history"] = sys.argv[2]
json.dump(m, open(p, "w"), indent=1, sort_keys=True)
