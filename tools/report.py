#!/venv/bin/python
"""Markdown tables for DESIGN.md section 7 from seeded/*/meta.json and a tools/mutants.py log."""
import glob
import json
import os
import re
import sys

VERIF = os.path.dirname(os.path.dirname(os.path.abspath(__file__)))


def seeded_table():
    rows = []
    for mp in sorted(glob.glob(os.path.join(VERIF, "seeded", "*", "meta.json"))):
        m = json.load(open(mp))
        sid = m.get("id") or os.path.basename(os.path.dirname(mp))
        notes = (m.get("needs_to_manifest") or "").replace("\n", " ")
        notes = re.sub(r"^#\s*\S+:?\s*", "", notes)
        notes = re.sub(r"\s+", " ", notes)[:170]
        caught = [k for k, v in m.get("caught_by", {}).items() if v.get("violation")]
        first = ""
        for k, v in m.get("caught_by", {}).items():
            if v.get("violation"):
                m2 = re.match(r"^(\w+): (\S+?):? ", v.get("first", "") + " ")
                first = f"{m2.group(1)}: {m2.group(2).rstrip(':')}" if m2 else v.get("first", "")[:60]
                break
        hist = m.get("history", "")
        rows.append(f"| {sid} | {m.get('property')} | {notes} | "
                    f"{'yes' if m.get('confirmed') else 'NO'} | {', '.join(caught) or '**missed**'} | {first} | {hist} |")
    head = ("| id | property | change / what it needs to manifest (from the author's notes) | confirmed | caught by | "
            "clause: signature | remark |\n|---|---|---|---|---|---|---|")
    return head + "\n" + "\n".join(rows)


def mutant_table(log):
    per = {}
    for ln in open(log):
        m = re.match(r"(KILLED|SURVIVED)\s+(\S+)\s+([\d.]+)s", ln)
        if m:
            pid = m.group(2).split("-")[0].upper()
            per.setdefault(pid, []).append((m.group(2), m.group(1)))
    rows = []
    for pid in sorted(per):
        k = sum(1 for _, r in per[pid] if r == "KILLED")
        surv = [i for i, r in per[pid] if r != "KILLED"]
        rows.append(f"| {pid} | {len(per[pid])} | {k} | {', '.join(surv) or '-'} |")
    return "| property (by id prefix) | mutants | killed by quick tier | survivors |\n|---|---|---|---|\n" + "\n".join(rows)


if __name__ == "__main__":
    if len(sys.argv) > 1 and sys.argv[1] == "mutants":
        print(mutant_table(sys.argv[2]))
    else:
        print(seeded_table())
