#!/bin/bash
# tools/seed_pass.sh <seed> [jobs]: fast re-run of every confirmed seeded change against its property's quick check at another
# VERIF_SEED (no test-suite / demo re-confirmation; see tools/seeded.py for the full evaluation). Prints one line per id.
seed=${1:-1}; jobs=${2:-4}
cd "$(dirname "$0")/.." || exit 2
ls seeded | xargs -P "$jobs" -I{} bash -c 'out=$(TAIL=1 tools/try.sh {} --seed '"$seed"' 2>&1 | tail -1); case "$out" in *"violations=0"*) echo "MISSED {} $out";; *exit=1*) echo "DETECTED {}";; *) echo "OTHER {} $out";; esac'
