#!/bin/bash
# tools/try.sh <seeded-id> [check args...]: runs the property's check against a scratch copy of /repo with the seeded patch applied
id=$1; shift
prop=$(echo ${id%%-*} | tr a-z A-Z)
t=$(mktemp -d /tmp/vftry_XXXX)
cp -r /repo/score_analysis $t/
(cd $t && patch -s -p1 --no-backup-if-mismatch -i /verif/seeded/$id/patch.diff) || { echo patch failed; rm -rf $t; exit 3; }
cd /verif
VERIF_REPO=$t VERIF_REPLAY_DIR=$t/replays ./check ${PROP:-$prop} --no-evidence "$@" 2>&1 | grep -v "^KNOWN-FINDING" | cut -c1-400 | tail -${TAIL:-4}
rm -rf $t
