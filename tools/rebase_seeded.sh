#!/bin/bash
# rebase_seeded.sh <id>: re-make seeded/<id>/patch.diff against /repo HEAD (3-way merge; in conflicts the seeded
# change wins and the repaired idioms are re-applied to it)
id=$1
W=$(mktemp -d /tmp/rb_XXXX)
found=""
for rev in HEAD HEAD~1 HEAD~2 HEAD~3 HEAD~4 HEAD~5 HEAD~6 HEAD~8 HEAD~10; do
  rm -rf $W/base $W/mut; mkdir -p $W/base
  git -C /repo archive $rev score_analysis | tar -x -C $W/base
  cp -r $W/base $W/mut
  if (cd $W/mut && patch -s -p1 --no-backup-if-mismatch -i /verif/seeded/$id/patch.diff >/dev/null 2>&1); then found=$rev; break; fi
done
if [ -z "$found" ]; then echo "$id: no base revision found"; rm -rf $W; exit 1; fi
mkdir -p $W/a $W/b; cp -r /repo/score_analysis $W/a/; cp -r /repo/score_analysis $W/b/
for f in $(cd $W/mut/base 2>/dev/null; cd $W/mut && find . -name "*.py" | sed 's|^\./||'); do
  if ! cmp -s $W/mut/$f $W/base/$f; then
    git merge-file -q --theirs $W/b/$f $W/base/$f $W/mut/$f
    /venv/bin/python - $W/b/$f <<'P'
import re,sys
p=sys.argv[1]; s=open(p).read()
s=re.sub(r"np\.asarray\((tpr|fnr|tnr|fpr|topr|tonr)\)", r"np.asarray(\1, dtype=float)", s)
s=s.replace("np.isclose(self.hard_pos_ratio, self.hard_neg_ratio)", "np.isclose(self.hard_pos_ratio, self.hard_neg_ratio, rtol=1e-12, atol=0.0)")
s=s.replace("self.nb_easy_pos = nb_easy_pos\n", "self.nb_easy_pos = int(nb_easy_pos)\n").replace("self.nb_easy_neg = nb_easy_neg\n", "self.nb_easy_neg = int(nb_easy_neg)\n")
open(p,"w").write(s)
P
  fi
done
(cd $W && diff -ru a/score_analysis b/score_analysis > /verif/seeded/$id/patch.diff)
/venv/bin/python -c "import ast,sys; [ast.parse(open(f).read()) for f in sys.argv[1:]]" $(find $W/b -name "*.py") || echo "$id: SYNTAX ERROR after merge"
echo "$id: rebased from $found ($(grep -c '^@@' /verif/seeded/$id/patch.diff) hunks)"
rm -rf $W
