#!/venv/bin/python
"""
Evaluation of seeded breaking changes (written by independent sub-agents that saw only the
property text).  For each /verif/seeded/<id>/ (patch.diff, demo.py, meta.json):

  1. copy /repo's working tree (score_analysis, tests, config) to a scratch directory under /tmp,
  2. apply patch.diff, run the pinned test-suite on it (must pass),
  3. run demo.py against the patched copy (must exit 1) and against a clean copy (must exit 0),
  4. run the registered check(s) against the patched copy (VERIF_REPO) and record which tier
     of which property raises VIOLATION,
  5. update meta.json, delete the scratch copies.

    tools/seeded.py                       # all of /verif/seeded
    tools/seeded.py c07-a --tier thorough # one, also thorough
    tools/seeded.py --import /tmp/seed/C07/_seeded/c07-a --prop C07   # adopt a sub-agent's output

Never registered in MANIFEST.json; writes no evidence.
"""

import argparse
import json
import os
import re
import shutil
import subprocess
import sys
import tempfile
import time

VERIF = os.path.dirname(os.path.dirname(os.path.abspath(__file__)))
REPO = "/repo"
SEEDED = os.path.join(VERIF, "seeded")


def scratch_copy():
    tmp = tempfile.mkdtemp(prefix="vfseed_", dir="/tmp")
    for d in ("score_analysis", "tests"):
        shutil.copytree(os.path.join(REPO, d), os.path.join(tmp, d),
                        ignore=shutil.ignore_patterns("__pycache__"))
    for f in ("pytest.ini", "setup.cfg", "pyproject.toml"):
        if os.path.exists(os.path.join(REPO, f)):
            shutil.copy(os.path.join(REPO, f), tmp)
    return tmp


def run(cmd, **kw):
    return subprocess.run(cmd, capture_output=True, text=True, **kw)


def evaluate(sid, tiers, all_props=False):
    d = os.path.join(SEEDED, sid)
    meta_path = os.path.join(d, "meta.json")
    meta = json.load(open(meta_path)) if os.path.exists(meta_path) else {}
    prop = meta.get("property") or sid.split("-")[0].upper()
    patched, clean = scratch_copy(), scratch_copy()
    res = dict(meta)
    res["property"] = prop
    try:
        p = run(["patch", "-p1", "--no-backup-if-mismatch", "-i", os.path.join(d, "patch.diff")], cwd=patched)
        res["patch_applies"] = p.returncode == 0
        if p.returncode != 0:
            res["patch_error"] = (p.stdout + p.stderr)[-500:]
            return res
        env = dict(os.environ, PYTHONDONTWRITEBYTECODE="1")
        t = run(["/venv/bin/python", "-m", "pytest", "-q", "-x", "-p", "no:cacheprovider", "tests"],
                cwd=patched, env=env)
        res["suite_passes_with_change"] = t.returncode == 0
        res["suite_tail"] = (t.stdout.strip().splitlines() or [""])[-1]
        demo = os.path.join(d, "demo.py")
        for name, root in (("demo_exit_with_change", patched), ("demo_exit_without_change", clean)):
            q = run(["/venv/bin/python", demo], cwd=root,
                    env=dict(env, SA_ROOT=root, PYTHONPATH=root), timeout=600)
            res[name] = q.returncode
            if name == "demo_exit_with_change":
                res["demo_output"] = (q.stdout + q.stderr).strip()[-400:]
        res["confirmed"] = bool(res["suite_passes_with_change"] and res["demo_exit_with_change"] == 1
                                and res["demo_exit_without_change"] == 0)
        props = ["C%02d" % i for i in range(1, 21)] if all_props else [prop] + [
            x for x in meta.get("also_check", []) if x != prop]
        caught = res.setdefault("caught_by", {})
        for tier in tiers:
            for pid in props:
                key = f"{pid}:{tier}"
                t0 = time.time()
                c = run([os.path.join(VERIF, "check"), pid, "--tier", tier, "--no-evidence"], cwd=VERIF,
                        env=dict(os.environ, VERIF_REPO=patched, VERIF_SEED=str(meta.get("seed", 0)),
                                 VERIF_REPLAY_DIR=os.path.join("replays", "seeded-" + sid)))
                viol = [ln for ln in c.stdout.splitlines() if ln.startswith("VIOLATION")]
                first = [ln for ln in c.stdout.splitlines()
                         if ": " in ln and not ln.startswith(("KNOWN-FINDING", "HARNESS", "VIOLATION", "C"))][:1]
                caught[key] = dict(rc=c.returncode, violation=bool(viol and c.returncode == 1),
                                   first=(first[0][:300] if first else ""), wall_s=round(time.time() - t0, 1))
                if c.returncode == 2:
                    caught[key]["harness_error"] = c.stdout[-600:]
        res["detected"] = any(v["violation"] for v in caught.values())
        res["ran"] = ("copied /repo working tree to a scratch dir, applied patch.diff with patch -p1, ran the "
                      "pinned pytest suite there, ran demo.py with SA_ROOT pointing at the patched and at a "
                      "clean copy, ran ./check <property> --tier <tier> with VERIF_REPO=<patched copy>")
        res["repo_head"] = run(["git", "-C", REPO, "log", "--format=%h", "-1"]).stdout.strip()
        return res
    finally:
        shutil.rmtree(patched, ignore_errors=True)
        shutil.rmtree(clean, ignore_errors=True)
        shutil.rmtree(os.path.join(VERIF, "replays", "seeded-" + sid), ignore_errors=True)
        json.dump(res, open(meta_path, "w"), indent=1)


def import_dir(src, prop):
    sid = os.path.basename(src.rstrip("/"))
    dst = os.path.join(SEEDED, sid)
    os.makedirs(dst, exist_ok=True)
    for f in ("patch.diff", "demo.py", "notes.md"):
        if os.path.exists(os.path.join(src, f)):
            shutil.copy(os.path.join(src, f), dst)
    meta = dict(id=sid, property=prop, source="independent sub-agent given only the property text and a scratch "
                                               "worktree of /repo")
    notes = os.path.join(dst, "notes.md")
    if os.path.exists(notes):
        meta["needs_to_manifest"] = open(notes).read().strip()[:1500]
    json.dump(meta, open(os.path.join(dst, "meta.json"), "w"), indent=1)
    return sid


def main():
    ap = argparse.ArgumentParser()
    ap.add_argument("ids", nargs="*")
    ap.add_argument("--tier", action="append")
    ap.add_argument("--all-props", action="store_true")
    ap.add_argument("--import", dest="imp", action="append")
    ap.add_argument("--prop")
    a = ap.parse_args()
    tiers = a.tier or ["quick"]
    ids = list(a.ids)
    for src in a.imp or []:
        ids.append(import_dir(src, a.prop or os.path.basename(src.rstrip("/")).split("-")[0].upper()))
    if not ids:
        ids = sorted(x for x in os.listdir(SEEDED) if os.path.isdir(os.path.join(SEEDED, x)))
    bad = 0
    for sid in ids:
        r = evaluate(sid, tiers, a.all_props)
        flag = "DETECTED" if r.get("detected") else "MISSED  "
        if not r.get("confirmed"):
            flag = "UNCONFIRMED"
        if not r.get("detected"):
            bad += 1
        cb = " ".join(f"{k}={'V' if v['violation'] else v['rc']}" for k, v in r.get("caught_by", {}).items())
        print(f"{flag} {sid}: suite={r.get('suite_passes_with_change')} demo_with={r.get('demo_exit_with_change')} "
              f"demo_without={r.get('demo_exit_without_change')} {cb}")
        for k, v in r.get("caught_by", {}).items():
            if v["violation"]:
                print("      " + k + ": " + v["first"][:220])
        sys.stdout.flush()
    return 1 if bad else 0


if __name__ == "__main__":
    sys.exit(main())
