#!/bin/bash
# Quietness sweep: every check's quick tier under several seeds (never registered in MANIFEST).
# usage: tools/sweep.sh "1 2 3" [tier]
cd "$(dirname "$0")/.." || exit 2
SEEDS=${1:-"1 2 3"}; TIER=${2:-quick}
for s in $SEEDS; do
  for i in $(seq -w 1 20); do
    out=$(VERIF_SEED=$s ./check C$i --tier $TIER --no-evidence 2>&1); rc=$?
    echo "seed=$s C$i rc=$rc $(echo "$out" | tail -1 | cut -c1-160)"
    if [ $rc -ne 0 ]; then echo "$out" | grep -v KNOWN-FINDING | head -5 | cut -c1-600; fi
  done
done
