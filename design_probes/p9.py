import warnings; warnings.filterwarnings("ignore")
import numpy as np, itertools
from score_analysis import Scores, pointwise_cm, ConfusionMatrix
s=Scores([1.,2.,3.],[0.,1.5],nb_easy_pos=1)
for shp in [(),(0,),(2,0),(2,0,3),(1,1,1),(3,)]:
    th=np.zeros(shp)+1.5
    try:
        cm=s.cm(th); print("cm",shp,cm.matrix.shape, type(s.tpr(th)), np.shape(s.tpr(th)))
    except Exception as e: print("cm EXC",shp,type(e).__name__,e)
    for name in ["threshold_at_tpr","threshold_at_fpr","threshold_at_topr"]:
        for method in ["linear","lower","higher"]:
            try:
                t=getattr(s,name)(np.zeros(shp)+0.4,method=method)
                if method=="linear": print("  ",name,shp,type(t).__name__,np.shape(t))
            except Exception as e: print("  EXC",name,method,shp,type(e).__name__,e)
    for sshape in [(3,),(0,),(2,2),()]:
        try:
            p=pointwise_cm(labels=np.ones(sshape),scores=np.zeros(sshape),threshold=th)
            assert p.shape==sshape+shp+(2,2),(p.shape)
        except Exception as e: print("  pointwise EXC scores",sshape,"thr",shp,type(e).__name__,e)
print(type(s.threshold_at_tpr(0.3)), type(s.threshold_at_tpr(np.float64(0.3))), type(s.threshold_at_tpr(np.array(0.3))), type(s.threshold_at_tpr(1)))
print(type(s.tpr(2)), type(s.cm(2.0).tp()), type(s.cm(2.0).pop()), type(s.cm(2.0).tpr_ci()), s.cm(2.0).tpr_ci().shape)
print(type(s.auc()), type(s.eer()[0]), type(s.eer()[1]))
# threshold_at_metric
print(s.threshold_at_metric(0.5,"tpr"), s.threshold_at_metric([0.5,0.2],"tpr"))
