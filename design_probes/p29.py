import warnings; warnings.filterwarnings("ignore")
import numpy as np, math, collections
from statistics import NormalDist
from score_analysis.utils import bootstrap_ci
from score_analysis import Scores, BootstrapConfig, roc_with_ci
ND=NormalDist()
rng=np.random.default_rng(12)
bad=collections.Counter(); tot=collections.Counter()
def pole(col,th,alpha):
    fin=col[~np.isnan(col)]; n=len(fin); p0=np.sum(fin<=th)/n
    if p0<=0 or p0>=1: return 0.0
    z0=ND.inv_cdf(p0); d=fin-th; den=6*np.sum(d**2)**1.5
    a=np.sum(d**3)/den if den!=0 else 0.0
    return max(abs(a*(z0+ND.inv_cdf(alpha/2))),abs(a*(z0+ND.inv_cdf(1-alpha/2))))
for it in range(3000):
    N=int(rng.integers(1,60)); Y=int(rng.integers(1,4))
    kind=rng.integers(0,4)
    if kind==0: th=rng.integers(-8,9,size=(N,Y))/4.0
    elif kind==1: th=np.round(np.exp(rng.normal(size=(N,Y))),2)
    elif kind==2: th=rng.normal(size=(N,Y))
    else: th=rng.integers(0,3,size=(N,Y)).astype(float)
    if rng.random()<.4 and N>1:
        m=rng.random((N,Y))<.2; m[0]=False; th=np.where(m,np.nan,th)
    hat=np.array([rng.choice(th[~np.isnan(th[:,j]),j]) if rng.random()<.5 else float(rng.normal()) for j in range(Y)])
    a1,a2=sorted(rng.uniform(0.001,0.999,2))
    for method in ["quantile","bc","bca"]:
        tot[method]+=1
        c1=bootstrap_ci(th,hat,a1,method=method); c2=bootstrap_ci(th,hat,a2,method=method)
        for j in range(Y):
            safe = method!="bca" or (pole(th[:,j],hat[j],a1)<1 and pole(th[:,j],hat[j],a2)<1)
            fin=th[:,j][~np.isnan(th[:,j])]
            for c in (c1,c2):
                if not (fin.min()<=c[j,0] and c[j,1]<=fin.max() and fin.min()<=c[j,1] and c[j,0]<=fin.max()): bad[(method,"range")]+=1
                if safe and c[j,0]>c[j,1]: bad[(method,"order")]+=1
            if safe and not (c1[j,0]<=c2[j,0]+1e-12 and c2[j,1]<=c1[j,1]+1e-12): 
                bad[(method,"nest")]+=1
                if bad[(method,"nest")]<3: print(method,"NEST",a1,a2,c1[j],c2[j],hat[j],list(th[:,j]))
        # NaN append + permutation
        th2=np.concatenate([th,np.full((3,Y),np.nan)])[rng.permutation(N+3)]
        if not np.allclose(bootstrap_ci(th2,hat,a1,method=method),c1,rtol=0,atol=1e-12,equal_nan=True): bad[(method,"nanperm")]+=1
        # exact affine
        sc_,sh_=float(rng.choice([.5,2,4,.25])),float(rng.integers(-5,6))
        if kind in (0,3):
            if not np.array_equal(bootstrap_ci(sc_*th+sh_,sc_*hat+sh_,a1,method=method),sc_*c1+sh_) and not np.allclose(bootstrap_ci(sc_*th+sh_,sc_*hat+sh_,a1,method=method),sc_*c1+sh_,rtol=1e-12,atol=1e-12): bad[(method,"affine")]+=1
        # per component
        for j in range(Y):
            if not np.array_equal(bootstrap_ci(th[:,j],hat[j],a1,method=method),c1[j],equal_nan=True): bad[(method,"component")]+=1
print(dict(tot),dict(bad))
# C16 real samplers on harder objects
bad=collections.Counter(); n_=0
for it in range(250):
    N=int(rng.integers(1,25)); M=int(rng.integers(1,25))
    if rng.random()<.5: pos=rng.integers(0,5,N)*.5; neg=rng.integers(0,5,M)*.5
    else: pos=rng.normal(1,1,N); neg=rng.normal(-1,1,M)
    ep,en=int(rng.choice([0,0,2,9])),int(rng.choice([0,0,3,11]))
    sc,ec=str(rng.choice(["pos","neg"])),str(rng.choice(["pos","neg"]))
    s=Scores(pos,neg,nb_easy_pos=ep,nb_easy_neg=en,score_class=sc,equal_class=ec)
    alpha=float(rng.uniform(0.01,0.5)); bm=str(rng.choice(["quantile","bc","bca"]))
    sm,strat=[("replacement",None),("replacement","by_label"),("dynamic",None),("proportion",None)][int(rng.integers(0,4))]
    cfg=BootstrapConfig(nb_samples=int(rng.integers(1,30)),sampling_method=sm,stratified_sampling=strat,bootstrap_method=bm,ratio=0.6,smoothing=bool(sm=="replacement" and rng.random()<.3))
    kw={}
    c=rng.integers(0,4)
    if c==0: kw["fnr"]=rng.uniform(0,1,3)
    elif c==1: kw["fpr"]=rng.uniform(0,1,2)
    elif c==2: kw["thresholds"]=rng.uniform(-2,3,3)
    else: kw["nb_points"]=int(rng.integers(2,12))
    np.random.seed(it)
    try: r=roc_with_ci(s,alpha=alpha,config=cfg,x_axis=str(rng.choice(["fpr","fnr","tpr","tnr"])),**kw)
    except Exception as e:
        bad[("EXC",sm,strat,cfg.smoothing,type(e).__name__,str(e)[:60])]+=1; continue
    n_+=1
    if np.isnan(r.fnr_ci).any() or np.isnan(r.fpr_ci).any(): bad[("nan",sm,bm)]+=1
    if (r.fnr_ci[:,0]>r.fnr_ci[:,1]).any() or (r.fpr_ci[:,0]>r.fpr_ci[:,1]).any(): bad[("order",sm,bm)]+=1
    if min(r.fnr_ci.min(),r.fpr_ci.min())<0 or max(r.fnr_ci.max(),r.fpr_ci.max())>1: bad[("01",sm,bm)]+=1
print(n_,dict(bad))
