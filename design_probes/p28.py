import warnings; warnings.filterwarnings("ignore")
import numpy as np, itertools, collections
from score_analysis import Scores
rng=np.random.default_rng(101)
metrics=["tpr","fnr","tnr","fpr","topr","tonr"]
def step(t,k):
    t=np.asarray(t,float).copy()
    for _ in range(abs(k)): t=np.nextafter(t,np.inf if k>0 else -np.inf)
    return t
bad=collections.Counter(); tot=collections.Counter(); worst=collections.defaultdict(float)
flip={"pos":"neg","neg":"pos"}
for it in range(1500):
    N=int(rng.integers(1,40)); M=int(rng.integers(1,40))
    mode=int(rng.integers(0,4))
    if mode==0: a=rng.normal(size=N+M)*10.0**rng.integers(-6,6)
    elif mode==1: a=np.exp(rng.normal(size=N+M)*5)*rng.choice([-1,1],N+M); a=np.clip(a,-1e6,1e6)
    elif mode==2: a=rng.uniform(-1e6,1e6,N+M)
    else: a=np.round(rng.normal(size=N+M),1)   # ties
    pos,neg=a[:N],a[N:]
    ep,en=int(rng.choice([0,0,1,7,50,199])),int(rng.choice([0,0,3,13,88,200]))
    allv=np.concatenate([pos,neg]); rg=allv.max()-allv.min()
    srt=np.sort(allv); 
    mingap_ulps = np.min(np.diff(srt)/np.spacing(np.abs(srt[:-1])+np.abs(srt[1:]))) if len(srt)>1 else np.inf
    tiefree = mingap_ulps>16
    for sc,ec in itertools.product(["pos","neg"],repeat=2):
        S=Scores(pos,neg,nb_easy_pos=ep,nb_easy_neg=en,score_class=sc,equal_class=ec)
        for m in metrics:
            Nall={"tpr":N+ep,"fnr":N+ep,"tnr":M+en,"fpr":M+en}.get(m,N+M+ep+en)
            lo,hi={"tpr":(ep/Nall,1),"fnr":(0,N/Nall),"tnr":(en/Nall,1),"fpr":(0,M/Nall),"topr":(ep/Nall,(ep+N+M)/Nall),"tonr":(en/Nall,(en+N+M)/Nall)}[m]
            r=np.concatenate([rng.uniform(-.2,1.2,4),rng.integers(0,Nall+1,3)/Nall,[lo,hi,(lo+hi)/2]])
            rc=np.clip(r,lo,hi)
            t=getattr(S,"threshold_at_"+m)(r); f=getattr(S,m)
            a_,c_,b_=f(step(t,-3)),f(t),f(step(t,3))
            tol=1/Nall+1e-9
            tot["rt"]+=len(r)
            if tiefree:
                e=np.abs(c_-rc); worst["rt_exact"]=max(worst["rt_exact"],float(np.max(e*Nall)))
                if np.any(e>tol): 
                    bad["rt_exact"]+=1
                    if bad["rt_exact"]<4:
                        i=int(np.argmax(e)); print("RT",m,sc,ec,N,M,ep,en,mode,r[i],rc[i],t[i],c_[i],a_[i],b_[i])
            mn=np.minimum(np.minimum(a_,b_),c_); mx=np.maximum(np.maximum(a_,b_),c_)
            if np.any(mn-tol>rc) or np.any(rc>mx+tol): bad["rt_bracket"]+=1
        # C08 negation thresholds
        Sn=Scores(-pos,-neg,nb_easy_pos=ep,nb_easy_neg=en,score_class=flip[sc],equal_class=ec)
        for m in metrics:
            r=rng.uniform(-.1,1.1,5)
            t=getattr(S,"threshold_at_"+m)(r); tn=getattr(Sn,"threshold_at_"+m)(r)
            e=np.max(np.abs(t+tn))/(rg+np.max(np.abs(allv))*1e-9+1e-300)
            worst["neg"]=max(worst["neg"],e)
            if e>1e-9: bad["neg"]+=1
        # C09
        lo_,hi_=allv.min(),allv.max(); d=max(rg,1.0)
        if sc=="pos": mp=np.concatenate([pos,hi_+d*(1+np.arange(ep))]); mn_=np.concatenate([neg,lo_-d*(1+np.arange(en))])
        else: mp=np.concatenate([pos,lo_-d*(1+np.arange(ep))]); mn_=np.concatenate([neg,hi_+d*(1+np.arange(en))])
        Sm=Scores(mp,mn_,score_class=sc,equal_class=ec)
        for m in metrics:
            rel={"tpr":pos,"fnr":pos,"tnr":neg,"fpr":neg}.get(m,allv)
            Tn=len(mp)+len(mn_)
            r=np.concatenate([rng.uniform(0,1,6),rng.integers(0,Tn+1,6)/Tn])
            tm=getattr(Sm,"threshold_at_"+m)(r); te=getattr(S,"threshold_at_"+m)(r)
            ok=(tm>=rel.min())&(tm<=rel.max())
            tot["c9"]+=int(ok.sum())
            if ok.any():
                e=np.max(np.abs(tm[ok]-te[ok]))/(rg+np.max(np.abs(allv))*1e-9+1e-300); worst["c9"]=max(worst["c9"],e)
                if e>1e-9:
                    bad["c9"]+=1
                    if bad["c9"]<4:
                        i=np.argmax(np.abs(tm[ok]-te[ok])); print("C9",m,sc,ec,N,M,ep,en,mode,r[ok][i],tm[ok][i],te[ok][i],rg)
        if abs(S.auc()-Sm.auc())>1e-12: bad["c9auc"]+=1
print(dict(tot),dict(bad),dict(worst))
