import sys
sys.path.insert(0,"/tmp/probe/deps"); sys.path.insert(0,"/repo")
import atheris
with atheris.instrument_imports(include=["score_analysis"]):
    import score_analysis
    from score_analysis.utils import invert_pl_function
import numpy as np
from hypothesis import given, strategies as st, settings, HealthCheck
@settings(database=None, deadline=None, suppress_health_check=list(HealthCheck))
@given(st.lists(st.integers(-4,4),min_size=1,max_size=6), st.integers(-9,9))
def t(ys, tt):
    x=np.arange(len(ys),dtype=float); y=np.asarray(ys,dtype=float)
    r=invert_pl_function(x,y,tt/2)
    assert np.all(np.diff(np.asarray(r).ravel())>0)
atheris.Setup(sys.argv, t.hypothesis.fuzz_one_input)
atheris.Fuzz()
