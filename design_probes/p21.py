import warnings; warnings.filterwarnings("ignore")
import numpy as np, itertools, collections, math
from score_analysis import Scores
from score_analysis.utils import bootstrap_ci
rng=np.random.default_rng(77)
metrics=["tpr","fnr","tnr","fpr","topr","tonr"]
bad=collections.Counter(); tot=collections.Counter(); worst=collections.defaultdict(float)
def ulps(a,b): 
    return abs(a-b)/max(np.spacing(max(abs(a),abs(b),1e-300)),5e-324)
for it in range(1500):
    N=int(rng.integers(1,10)); M=int(rng.integers(1,10))
    ties=rng.random()<.5
    if ties: pos=rng.integers(0,5,N)*.5; neg=rng.integers(0,5,M)*.5
    else: a=rng.permutation(60)[:N+M]*.37-7; pos,neg=a[:N],a[N:]
    ep,en=int(rng.choice([0,0,1,3,10])),int(rng.choice([0,0,2,5]))
    for sc,ec in itertools.product(["pos","neg"],repeat=2):
        s=Scores(pos,neg,nb_easy_pos=ep,nb_easy_neg=en,score_class=sc,equal_class=ec)
        for m in metrics:
            rel={"tpr":pos,"fnr":pos,"tnr":neg,"fpr":neg}.get(m,np.concatenate([pos,neg]))
            Nall={"tpr":N+ep,"fnr":N+ep,"tnr":M+en,"fpr":M+en}.get(m,N+M+ep+en)
            allowed=set(rel.tolist())|{float(np.nextafter(rel.min(),-np.inf)),float(np.nextafter(rel.max(),np.inf))}
            rs=np.sort(np.concatenate([rng.uniform(-.2,1.2,5),rng.integers(0,Nall+1,3)/Nall]))
            f=getattr(s,m); th=getattr(s,"threshold_at_"+m)
            tl,tlo,thi=th(rs),th(rs,method="lower"),th(rs,method="higher")
            tot["n"]+=len(rs)
            for r,a_,b_,c_ in zip(rs,tl,tlo,thi):
                if float(b_) not in allowed or float(c_) not in allowed: bad["notscore"]+=1
                if f(b_)>f(c_): bad["metric_order"]+=1
                lo_,hi_=min(b_,c_),max(b_,c_)
                span=max(hi_-lo_,0)
                if not (lo_-4*np.spacing(abs(lo_)) <= a_ <= hi_+4*np.spacing(abs(hi_))): bad["between"]+=1
                if b_!=c_:
                    fobs=(a_-b_)/(c_-b_)   # weight on 'higher'
                    lo,hi={"tpr":(ep/Nall,1),"fnr":(0,N/Nall),"tnr":(en/Nall,1),"fpr":(0,M/Nall),"topr":(ep/Nall,(ep+N+M)/Nall),"tonr":(en/Nall,(en+N+M)/Nall)}[m]
                    rc=min(max(r,lo),hi); fr=(rc*Nall)%1.0
                    d=min(abs(fobs-fr),1-abs(fobs-fr))
                    worst["frac"]=max(worst["frac"],d)
                    if d>1e-6: 
                        bad["frac"]+=1
                        if bad["frac"]<5: print("FRAC",m,sc,ec,list(pos),list(neg),ep,en,r,a_,b_,c_,fobs,fr)
            # monotone in r
            incr = m in ("fnr","tnr","tonr")
            if sc=="neg": incr=not incr
            for arr,nm in ((tl,"lin"),(tlo,"lo"),(thi,"hi")):
                d=np.diff(arr); tolv=8*np.spacing(np.abs(arr[:-1])+np.abs(arr[1:]))
                if (np.any(d< -tolv) if incr else np.any(d>tolv)): bad["mono_"+nm]+=1
print(dict(tot),dict(bad),dict(worst))
# EER equivariance
bad=collections.Counter(); worst=collections.defaultdict(float); n_=0
flip={"pos":"neg","neg":"pos"}
for it in range(1500):
    N=int(rng.integers(1,12)); M=int(rng.integers(1,12))
    a=rng.permutation(80)[:N+M]*.25-5; pos,neg=a[:N],a[N:]
    ep,en=int(rng.choice([0,0,1,4])),int(rng.choice([0,0,2,3]))
    for sc,ec in itertools.product(["pos","neg"],repeat=2):
        s=Scores(pos,neg,nb_easy_pos=ep,nb_easy_neg=en,score_class=sc,equal_class=ec)
        t,e=s.eer(); n_+=1
        sn=Scores(-pos,-neg,nb_easy_pos=ep,nb_easy_neg=en,score_class=flip[sc],equal_class=ec)
        tn,en_=sn.eer()
        a_,b_=float(rng.choice([.5,2,3,.1,7.3])),float(rng.uniform(-50,50))
        sa=Scores(a_*pos+b_,a_*neg+b_,nb_easy_pos=ep,nb_easy_neg=en,score_class=sc,equal_class=ec)
        ta,ea=sa.eer()
        rg=a.max()-a.min()+1
        worst["neg_e"]=max(worst["neg_e"],abs(e-en_)); worst["neg_t"]=max(worst["neg_t"],abs(t+tn)/rg)
        worst["aff_e"]=max(worst["aff_e"],abs(e-ea)); worst["aff_t"]=max(worst["aff_t"],abs(ta-(a_*t+b_))/(a_*rg))
        if abs(e-en_)>1e-8 or abs(t+tn)/rg>1e-6: 
            bad["neg"]+=1
            if bad["neg"]<4: print("NEG",list(pos),list(neg),ep,en,sc,ec,t,e,tn,en_)
        if abs(e-ea)>1e-8 or abs(ta-(a_*t+b_))/(a_*rg)>1e-6: bad["aff"]+=1
print(n_,dict(bad),dict(worst))
