import warnings; warnings.filterwarnings("ignore")
import numpy as np, math, collections, itertools
from fractions import Fraction as F
from score_analysis import Scores
from score_analysis.applications import FraudScores, DocLabel, doc_to_binary_label, binary_to_doc_label
from score_analysis.experimental import NormalDataset, BernoulliDataset, CorrelatedBernoullilDataset
rng=np.random.default_rng(55)
bad=collections.Counter(); tot=collections.Counter()
for it in range(1500):
    N=int(rng.integers(0,8)); M=int(rng.integers(0,8))
    g=np.round(rng.uniform(-.2,1.2,N),2) if rng.random()<.3 else np.round(rng.uniform(0,1,N),2)
    f=np.round(rng.uniform(-.2,1.2,M),2) if rng.random()<.3 else np.round(rng.uniform(0,1,M),2)
    if rng.random()<.2 and N: g[0]=rng.choice([0.0,1.0])
    sc=str(rng.choice(["genuine","fraud"])); eg,ef=int(rng.choice([0,3])),int(rng.choice([0,2]))
    outside=bool(np.any(g<0) or np.any(g>1) or np.any(f<0) or np.any(f>1))
    tot["f"]+=1
    try:
        fs=FraudScores(genuines=g,frauds=f,nb_easy_genuines=eg,nb_easy_frauds=ef,score_class=sc); raised=False
    except ValueError: raised=True
    if raised!=outside: bad["validation"]+=1
    if raised: continue
    ref=Scores(g,f,nb_easy_pos=eg,nb_easy_neg=ef,score_class={"genuine":"pos","fraud":"neg"}[sc],equal_class="pos")
    th=np.concatenate([g,f,[-.5,.5,1.5]])
    if not np.array_equal(fs.cm(th).matrix,ref.cm(th).matrix): bad["cm"]+=1
    if not (np.array_equal(fs.genuines,ref.pos) and np.array_equal(fs.frauds,ref.neg)): bad["alias"]+=1
    if N and M:
        if fs.eer()!=ref.eer(): bad["eer"]+=1
        if fs.auc()!=ref.auc(): bad["auc"]+=1
        r=rng.uniform(-.1,1.1,4)
        for m in ["tpr","fnr","tnr","fpr","topr","tonr"]:
            if not np.array_equal(getattr(fs,"threshold_at_"+m)(r),getattr(ref,"threshold_at_"+m)(r)): bad["thr"]+=1
    lab=np.concatenate([np.ones(N),np.zeros(M)]).astype(int); sco=np.concatenate([g,f]); p=rng.permutation(N+M)
    fl=FraudScores.from_labels(lab[p],sco[p],genuine_label=1,score_class=sc,nb_easy_genuines=eg,nb_easy_frauds=ef)
    if not (fl==fs): bad["from_labels"]+=1
for l in ["genuine","fraud",DocLabel.pos,DocLabel.neg]:
    assert binary_to_doc_label(doc_to_binary_label(l))==DocLabel(l)
for l in ["pos","neg"]:
    assert doc_to_binary_label(binary_to_doc_label(l)).value==l
print(dict(tot),dict(bad))
# C20
bad=collections.Counter()
worst=0
for it in range(3000):
    mu_p=float(rng.uniform(-5,5)); mu_n=float(rng.uniform(-5,5)); sp=float(np.exp(rng.uniform(-2,2))); sn=float(np.exp(rng.uniform(-2,2)))
    d=NormalDataset(mu_pos=mu_p,mu_neg=mu_n,sigma_pos=sp,sigma_neg=sn,score_class=str(rng.choice(["pos","neg"])))
    r=float(rng.uniform(1e-6,1-1e-6))
    e1=abs(d.fnr(d.threshold_at_fnr(r))-r); e2=abs(d.fpr(d.threshold_at_fpr(r))-r)
    t=float(rng.uniform(-8,8)); 
    worst=max(worst,e1/ r, e2/r)
    if e1>1e-9*max(r,1e-3) or e2>1e-9*max(r,1e-3): bad["inverse"]+=1
    rr=np.sort(rng.uniform(0.001,.999,3)); c=d.roc(fnr=rr)
    if not (np.allclose(c.fnr,d.fnr(c.thresholds)) and np.allclose(c.fpr,d.fpr(c.thresholds)) and np.allclose(c.fnr,rr)): bad["roc"]+=1
    fnr=float(rng.uniform(.01,.99)); fpr=float(rng.uniform(.01,.99)); s1=int(rng.integers(1,200)); s2=int(rng.integers(1,200))
    m=NormalDataset.from_metrics(fnr,fpr,s1,s2,sigma_pos=sp,sigma_neg=sn)
    if abs(m.fnr(0.0)-fnr)>1e-9 or abs(m.fpr(0.0)-fpr)>1e-9: bad["from_metrics"]+=1
    q1=F(s1)/F(fnr); q2=F(s2)/F(fpr)
    def okint(v,q): return v==math.floor(q) or abs(F(v)-q)<F(1,10**9) 
    nbp=round(m.p_pos*m.n)
    if not (okint(nbp,q1) and okint(m.n-nbp,q2)): bad["sizes"]+=1
    n=int(rng.integers(1,300)); sm=d.sample(n,rng=np.random.default_rng(it))
    if sm.nb_all_samples!=n or sm.score_class!=d.score_class: bad["sample"]+=1
    p=float(rng.choice([0,1,rng.uniform(0,1),rng.integers(0,11)/10])); 
    x=BernoulliDataset(p).sample(n,random=False,rng=np.random.default_rng(it))
    q=F(p)*n
    if not (len(x)==n and set(np.unique(x))<={0,1} and (x.sum()==math.floor(q) or abs(F(int(x.sum()))-q)<F(1,10**9))): bad["bern"]+=1; 
    p1=float(rng.uniform(0,1)); p2=float(rng.uniform(0,1)); rho=float(rng.uniform(-1,1))
    c_=(1-p1)*(1-p2); a=c_+rho*math.sqrt(p1*p2*c_); pr=[a,1-p2-a,1-p1-a,p1+p2+a-1]
    for random in (False,True):
        try:
            y=CorrelatedBernoullilDataset(p1,p2,rho).sample(n,random=random,rng=np.random.default_rng(it)); raised=False
        except ValueError: raised=True
        if min(pr)<-1e-12 and not raised: bad["corr_noraise"]+=1
        if min(pr)>1e-12 and raised: bad["corr_raise"]+=1
        if not raised:
            if y.shape!=(2,n) or not set(np.unique(y))<={0,1}: bad["corr_shape"]+=1
            if not random and (abs(y[0].sum()-n*p1)>3 or abs(y[1].sum()-n*p2)>3): bad["corr_marg"]+=1
print(dict(bad),worst)
