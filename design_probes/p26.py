import warnings; warnings.filterwarnings("ignore")
import os, json, numpy as np, time
import hypothesis
from hypothesis import given, settings, strategies as st, seed, HealthCheck, Phase
from hypothesis.stateful import RuleBasedStateMachine, rule, invariant, initialize, run_state_machine_as_test
from score_analysis import Scores

# (2) capture shrunk case as replay dict
class Violation(Exception): pass
last={}
def check_c03(case):
    s=Scores(case["pos"],case["neg"],score_class=case["sc"],equal_class=case["ec"])
    t=s.threshold_at_fpr(0.0)
    if s.fpr(t)!=0.0: raise Violation("C03/extreme/lo fpr=%r"%s.fpr(t))
scores=st.lists(st.integers(-8,8).map(lambda k:k/2),min_size=1,max_size=8)
case_st=st.fixed_dictionaries({"pos":scores,"neg":scores,"sc":st.sampled_from(["pos","neg"]),"ec":st.sampled_from(["pos","neg"])})
stats={"n":0}
@seed(int(os.environ.get("VERIF_SEED","0")))
@settings(database=None,deadline=None,max_examples=300,report_multiple_bugs=False,suppress_health_check=[HealthCheck.too_slow])
@given(case_st)
def t_c03(case):
    stats["n"]+=1
    try: check_c03(case)
    except Violation as e:
        last["case"]=case; last["msg"]=str(e); raise
t0=time.time()
try: t_c03(); print("no failure")
except Violation as e:
    print("shrunk replay:",json.dumps(last["case"]),"|",last["msg"],"| examples run:",stats["n"],"time %.1fs"%(time.time()-t0))
    # replay bypassing hypothesis
    try: check_c03(json.loads(json.dumps(last["case"]))); print("replay: passes?!")
    except Violation as e2: print("replay reproduces:",e2)

# (1) stateful machine for C10
class M(RuleBasedStateMachine):
    @initialize(pos=scores,neg=scores,sc=st.sampled_from(["pos","neg"]),ec=st.sampled_from(["pos","neg"]),ep=st.integers(0,3))
    def init(self,pos,neg,sc,ec,ep):
        self.pos_in=np.sort(np.asarray(pos,float)); self.neg_in=np.sort(np.asarray(neg,float))
        self.pos_copy=self.pos_in.copy(); self.neg_copy=self.neg_in.copy()
        self.kw=dict(nb_easy_pos=ep,score_class=sc,equal_class=ec)
        self.s=Scores(self.pos_in,self.neg_in,is_sorted=True,**self.kw)
        self.memo={}; self.steps=0
    def _q(self,key,f):
        self.steps+=1
        r=f(self.s); fresh=f(Scores(self.pos_copy.copy(),self.neg_copy.copy(),is_sorted=True,**self.kw))
        assert np.array_equal(np.asarray(r),np.asarray(fresh),equal_nan=True),key
        if key in self.memo: assert np.array_equal(np.asarray(self.memo[key]),np.asarray(r),equal_nan=True),("repeat",key)
        self.memo[key]=r
    @rule(th=st.lists(st.integers(-9,9).map(lambda k:k/2),max_size=3))
    def cm(self,th):
        arr=np.asarray(th,float); c=arr.copy()
        self._q(("cm",tuple(th)),lambda s:s.cm(arr).matrix); assert np.array_equal(arr,c)
    @rule(r=st.lists(st.integers(-2,12).map(lambda k:k/10),max_size=3),m=st.sampled_from(["tpr","fnr","tnr","fpr","topr","tonr"]),meth=st.sampled_from(["linear","lower","higher"]))
    def thr(self,r,m,meth):
        arr=np.asarray(r,float); c=arr.copy()
        self._q(("thr",m,meth,tuple(r)),lambda s:getattr(s,"threshold_at_"+m)(arr,method=meth)); assert np.array_equal(arr,c)
    @rule()
    def eer(self): self._q(("eer",),lambda s:np.asarray(s.eer()))
    @rule()
    def auc(self): self._q(("auc",),lambda s:s.auc())
    @rule()
    def swap(self): self._q(("swapcm",),lambda s:s.swap().cm([0.0,1.0]).matrix)
    @rule()
    def boot(self):
        np.random.seed(1); self.s.bootstrap_sample()
    @invariant()
    def unchanged(self):
        if hasattr(self,"s"):
            assert np.array_equal(self.s.pos,self.pos_copy) and np.array_equal(self.s.neg,self.neg_copy)
            assert np.array_equal(self.pos_in,self.pos_copy) and np.array_equal(self.neg_in,self.neg_copy)
t0=time.time()
run_state_machine_as_test(seed(3)(M),settings=settings(max_examples=100,stateful_step_count=25,deadline=None,database=None,suppress_health_check=[HealthCheck.too_slow]))
print("state machine ok, %.1fs"%(time.time()-t0))
