import warnings; warnings.filterwarnings("ignore")
import numpy as np, pandas as pd, collections, sys
from score_analysis import showbias, BootstrapConfig, GroupScores, utils
import score_analysis; print(score_analysis.__file__)
rng=np.random.default_rng(5)
def make_perm_sampler(seed):
    st=np.random.RandomState(seed)
    def sampler(g):
        pp=st.permutation(len(g.pos)); pn=st.permutation(len(g.neg))
        return GroupScores(g.pos,g.neg,pos_groups=g.pos_groups[pp],neg_groups=g.neg_groups[pn],score_class=g.score_class,equal_class=g.equal_class,group_names=g.groups,is_sorted=True)
    return sampler
cnt=collections.Counter()
for it in range(300):
    n=int(rng.integers(6,30)); G=int(rng.integers(2,4))
    df=pd.DataFrame({"g":rng.choice(list("abc")[:G],n),"label":rng.integers(0,2,n),"score":np.round(rng.random(n),1)})
    for g_ in list("abc")[:G]:
        for lab in (0,1):
            if not ((df.g==g_)&(df.label==lab)).any(): df.loc[len(df)]=[g_,lab,0.5]
    metric=str(rng.choice(["fnr","fpr","tpr","topr"])); thr=[0.3,0.6]
    norm=[None,"by_overall"][int(rng.integers(0,2))]; bm=str(rng.choice(["quantile","bc","bca"]))
    seed=int(rng.integers(0,2**31)); alpha=0.1
    cfg=BootstrapConfig(nb_samples=15,bootstrap_method=bm,sampling_method=make_perm_sampler(seed))
    r=showbias(df,"g","label","score",metric,normalize=norm,bootstrap_ci=True,bootstrap_config=cfg,alpha=alpha,threshold=thr)
    # reference
    go=GroupScores.from_labels(labels=df.label.values,scores=df.score.values,groups=df.g.values)
    samp=make_perm_sampler(seed)
    def gm(x): return getattr(x.group_cm(thr),metric)()
    ov=getattr(go.cm(thr),metric)()
    reps=np.stack([gm(samp(go)) for _ in range(15)])
    vals=gm(go)
    if norm=="by_overall":
        with np.errstate(all="ignore"):
            reps=np.where(ov!=0,reps/np.where(ov==0,1,ov),reps); vals=np.where(ov!=0,vals/np.where(ov==0,1,ov),vals)
    ci=utils.bootstrap_ci(reps,vals,alpha,method=bm)
    key=(norm,bm)
    cnt[key]+=1
    okv=np.allclose(r.values.to_numpy(),vals,equal_nan=True)
    ok=np.allclose(r.lower.to_numpy(),ci[...,0],equal_nan=True) and np.allclose(r.upper.to_numpy(),ci[...,1],equal_nan=True)
    if not okv: cnt[key+("VALBAD",)]+=1
    if not ok: cnt[key+("CIBAD",)]+=1
for k in sorted(cnt,key=str): print(k,cnt[k])
