import warnings; warnings.filterwarnings("ignore")
import numpy as np, math, collections, itertools
from score_analysis import Scores, GroupScores, BootstrapConfig, groupwise, utils
rng=np.random.default_rng(33)
bad=collections.Counter(); tot=collections.Counter()
def pairs(g): return sorted([(float(s),str(x),"p") for s,x in zip(g.pos,g.pos_groups)]+[(float(s),str(x),"n") for s,x in zip(g.neg,g.neg_groups)])
for it in range(400):
    N=int(rng.integers(1,12)); M=int(rng.integers(1,12)); G=int(rng.integers(1,5))
    names=list(rng.choice(["a","b","c","dd","e_f","Z"],size=G,replace=False))
    distinct=rng.random()<.6
    if distinct: a=rng.permutation(60)[:N+M]*.5
    else: a=rng.integers(0,5,N+M).astype(float)
    pos,neg=a[:N],a[N:]
    pg=rng.choice(names,size=N); ng=rng.choice(names,size=M)
    src=sorted([(float(s),str(x),"p") for s,x in zip(pos,pg)]+[(float(s),str(x),"n") for s,x in zip(neg,ng)])
    for sc,ec in itertools.product(["pos","neg"],repeat=2):
        g=GroupScores(pos,neg,pos_groups=pg,neg_groups=ng,score_class=sc,equal_class=ec)
        tot["ctor"]+=1
        if pairs(g)!=src: bad["align"]+=1
        if np.any(np.diff(g.pos)<0) or np.any(np.diff(g.neg)<0): bad["sorted"]+=1
        sw=g.swap()
        if sorted((s,x,"n" if c=="p" else "p") for s,x,c in pairs(sw))!=src: bad["swap"]+=1
        th=np.concatenate([a,[-1,100],rng.uniform(0,30,3)])
        gcm=g.group_cm(th).matrix
        if not np.array_equal(gcm.sum(axis=0), g.cm(th).matrix): bad["sum"]+=1
        for gi,name in enumerate(g.groups):
            ref=Scores(pos[pg==name],neg[ng==name],score_class=sc,equal_class=ec)
            if not (g[name]==ref): bad["getitem"]+=1
            if not np.array_equal(gcm[gi], ref.cm(th).matrix): bad["groupcm"]+=1
        gw=groupwise("topr")(g,threshold=th)
        if not np.array_equal(gw, np.stack([g[n].topr(th) for n in g.groups]),equal_nan=True): bad["groupwise"]+=1
        for m,strat in itertools.product(["replacement","single_pass","dynamic"],[None,"by_label","by_group"]):
            both = all(((pg==n).any() and (ng==n).any()) for n in g.groups)
            if m=="single_pass" and strat=="by_group" and not both: continue
            np.random.seed(int(rng.integers(0,2**31)))
            tot["boot"]+=1
            try: b=g.bootstrap_sample(BootstrapConfig(sampling_method=m,stratified_sampling=strat))
            except Exception as e:
                bad[("EXC",m,strat,type(e).__name__,str(e)[:40])]+=1; continue
            if list(b.groups)!=list(g.groups): bad["names"]+=1
            if np.any(np.diff(b.pos)<0) or np.any(np.diff(b.neg)<0): bad[("bsorted",m,strat)]+=1
            if distinct:
                srcset=set(src)
                if not set(pairs(b))<=srcset: bad[("battach",m,strat)]+=1
            if strat=="by_group" and m!="single_pass":
                for n in g.groups:
                    if (b.pos_groups==n).sum()+(b.neg_groups==n).sum()!=(pg==n).sum()+(ng==n).sum(): bad["bygroupcount"]+=1
print(dict(tot),dict(bad))
# C14
cnt=collections.Counter()
for it in range(200):
    N=int(rng.integers(1,12)); M=int(rng.integers(1,12))
    s=Scores(rng.normal(size=N),rng.normal(size=M),nb_easy_pos=int(rng.choice([0,2])),score_class=str(rng.choice(["pos","neg"])))
    k={"n":0}
    def sampler(src):
        k["n"]+=1
        return Scores(src.pos+k["n"],src.neg-k["n"],score_class=src.score_class,equal_class=src.equal_class)
    cfg=BootstrapConfig(nb_samples=4,sampling_method=sampler,bootstrap_method="bc")
    def metric(x,c=0.0): return np.array([x.pos.mean()+c, x.neg.mean()])
    rows=s.bootstrap_metric(metric,config=cfg,c=2.0)
    exp=np.stack([[s.pos.mean()+j+2.0, s.neg.mean()-j] for j in range(1,5)])
    cnt["custom"]+=1
    if not np.allclose(rows,exp,atol=1e-12): cnt["custom_BAD"]+=1
    for m in ["replacement","single_pass","dynamic","proportion"]:
        cfg=BootstrapConfig(nb_samples=5,sampling_method=m,ratio=0.5,bootstrap_method=str(rng.choice(["quantile","bc","bca"])))
        seed=int(rng.integers(0,2**31))
        try:
            np.random.seed(seed); rows=s.bootstrap_metric("tpr",config=cfg,threshold=[0.0,0.5])
            np.random.seed(seed); exp=np.stack([s.bootstrap_sample(cfg).tpr([0.0,0.5]) for _ in range(5)])
            np.random.seed(seed); ci=s.bootstrap_ci("tpr",alpha=0.1,config=cfg,threshold=[0.0,0.5])
            ref=utils.bootstrap_ci(exp,s.tpr([0.0,0.5]),0.1,method=cfg.bootstrap_method)
        except Exception as e:
            cnt[("EXC",m,type(e).__name__,str(e)[:50])]+=1; continue
        cnt[m]+=1
        if not np.array_equal(rows,exp,equal_nan=True): cnt[m+"_rowsBAD"]+=1
        if not np.array_equal(ci,ref,equal_nan=True): cnt[m+"_ciBAD"]+=1
print(dict(cnt))
