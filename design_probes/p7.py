import warnings; warnings.filterwarnings("ignore")
import numpy as np, itertools, collections
from fractions import Fraction as F
from score_analysis import Scores
rng = np.random.default_rng(5)
def mw(pos,neg,ep,en,sc):
    w=F(0)
    for p in pos:
        for n in neg:
            better = p>n if sc=="pos" else p<n
            w += 1 if better else (F(1,2) if p==n else 0)
    w += ep*(len(neg)+en) + len(pos)*en
    return w/((len(pos)+ep)*(len(neg)+en))
def step_area(pos,neg,ep,en,sc,lo,up):
    # exact area under step ROC (x=fpr,y=tpr) on [lo,up], no cross-class ties
    key = (lambda v: -v) if sc=="pos" else (lambda v: v)
    negs = sorted(neg, key=key)  # most positive first
    Mall=len(neg)+en; Pall=len(pos)+ep
    area=F(0)
    for k in range(Mall):
        a,b = F(k,Mall), F(k+1,Mall)
        l,u = max(a,lo), min(b,up)
        if u<=l: continue
        if k < len(negs):
            v = negs[k]
            cnt = sum(1 for p in pos if (p>v if sc=="pos" else p<v)) + ep
        else:
            cnt = Pall
        area += (u-l)*F(cnt,Pall)
    return area
bad=collections.Counter(); tot=0; maxerr=0
for it in range(3000):
    N=rng.integers(1,8); M=rng.integers(1,8)
    ties = rng.random()<0.5
    if ties:
        pos=rng.integers(0,4,size=N).astype(float); neg=rng.integers(0,4,size=M).astype(float)
    else:
        # within-class ties allowed, no cross-class ties
        vals = rng.permutation(12).astype(float); cut=rng.integers(1,11)
        pos = rng.choice(vals[:cut], size=N); neg=rng.choice(vals[cut:], size=M)
    ep,en = int(rng.choice([0,0,1,4])), int(rng.choice([0,0,2,3]))
    for sc, ec in itertools.product(["pos","neg"], repeat=2):
        s=Scores(pos,neg,nb_easy_pos=ep,nb_easy_neg=en,score_class=sc,equal_class=ec)
        tot+=1
        full=s.auc()
        ref=float(mw(list(pos),list(neg),ep,en,sc))
        if abs(full-ref)>1e-9:
            bad["mw"]+=1
            if bad["mw"]<4: print("MW",list(pos),list(neg),ep,en,sc,ec,full,ref)
        if not ties:
            lo,up = sorted(rng.choice([0,0.1,0.25,1/3,0.5,0.6,2/3,0.75,1.0, rng.random(), rng.random()],size=2))
            lo,up=float(lo),float(up)
            got=s.auc(lo,up)
            ref=float(step_area(list(pos),list(neg),ep,en,sc,F(lo),F(up)))
            maxerr=max(maxerr,abs(got-ref))
            if abs(got-ref)>1e-9:
                bad["partial"]+=1
                if bad["partial"]<4: print("PART",list(pos),list(neg),ep,en,sc,ec,lo,up,got,ref)
            if abs(s.auc(lo,up,y_axis="fnr")-((up-lo)-got))>1e-9: bad["ycomp"]+=1
            g2=s.auc(1-up,1-lo,x_axis="tnr")
            if abs(g2-got)>1e-9:
                bad["xcomp"]+=1
                if bad["xcomp"]<4: print("XC",list(pos),list(neg),ep,en,sc,ec,lo,up,got,g2)
            if abs(s.auc(x_axis="tpr",y_axis="fpr")-(1-full))>1e-9:
                bad["swap"]+=1
                if bad["swap"]<4: print("SW",list(pos),list(neg),ep,en,sc,ec,full,s.auc(x_axis="tpr",y_axis="fpr"))
print(tot,bad,maxerr)
