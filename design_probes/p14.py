import warnings; warnings.filterwarnings("ignore")
import numpy as np, pandas as pd
from score_analysis import showbias, BootstrapConfig
df=pd.DataFrame({"g":["a","a","a","b","b","b","c","c"],"h":["x","y","x","x","x","y","y","y"],
  "score":[.1,.6,.7,.2,.3,.9,.4,.8],"label":[1,1,1,1,1,1,1,0]})
ident=BootstrapConfig(nb_samples=5,sampling_method=lambda s:s,bootstrap_method="bca")
for norm in [None,"by_overall","by_min"]:
    r=showbias(df,"g","label","score","fnr",normalize=norm,bootstrap_ci=True,bootstrap_config=ident,threshold=[0.5,0.25])
    print(norm,"values\n",r.values.to_numpy().tolist(),"\n lower",r.lower.to_numpy().tolist(),"\n upper",r.upper.to_numpy().tolist())
# underscore in group values
df2=df.copy(); df2["g"]=["a_b","a_b","a","a","b","b","c","c"]; df2["h"]=["c","c","b_c","b_c","x","x","y","y"]
try:
    r=showbias(df2,["g","h"],"label","score","fnr",threshold=[0.5]); print(r.values)
except Exception as e: print("EXC",type(e).__name__,e)
df3=df.copy(); df3["g"]=["a_b","a_b","a","a","b","b","c","c"]; df3["h"]=["c","c","q","q","x","x","y","y"]
try:
    r=showbias(df3,["g","h"],"label","score","fnr",threshold=[0.5]); print(r.values)
except Exception as e: print("EXC",type(e).__name__,e)
r=showbias(df2,"g","label","score","fnr",threshold=[0.5]); print(r.values)
# single threshold scalar + bootstrap: squeeze
r=showbias(df,"g","label","score","fnr",bootstrap_ci=True,bootstrap_config=ident,threshold=0.5); print(r.lower)
# single group
df4=df.copy(); df4["g"]="only"
try:
    r=showbias(df4,"g","label","score","fnr",bootstrap_ci=True,bootstrap_config=ident,threshold=[0.5,0.7]); print(r.values, r.lower)
except Exception as e: print("EXC single group",type(e).__name__,e)
try:
    r=showbias(df4,"g","label","score","fnr",bootstrap_ci=True,bootstrap_config=ident,threshold=[0.5]); print(r.values, r.lower)
except Exception as e: print("EXC single group single thr",type(e).__name__,e)
