import warnings; warnings.filterwarnings("ignore")
import numpy as np, math, collections, sys, time
from score_analysis import Scores, BootstrapConfig
import score_analysis; print(score_analysis.__file__)
rng=np.random.default_rng(int(sys.argv[1]) if len(sys.argv)>1 else 0)
K=int(sys.argv[2]) if len(sys.argv)>2 else 300
def bern_t(mu_total, logp=28.0):
    # Bernstein radius t s.t. 2exp(-t^2/(2(v+t/3)))<=~1e-12 with variance proxy v=mu_total
    v=mu_total; L=logp
    return (L/3)+math.sqrt((L/3)**2+2*v*L)
alarms=collections.Counter(); tot=collections.Counter(); worstz=0
t0=time.time()
for it in range(60):
    N=int(rng.integers(30,160)); M=int(rng.integers(30,160))
    ep=int(rng.choice([0,0,5,20])); en=int(rng.choice([0,0,7,30]))
    a=rng.permutation(2000)[:N+M]*0.01; pos,neg=a[:N],a[N:]
    s=Scores(pos,neg,nb_easy_pos=ep,nb_easy_neg=en,score_class=str(rng.choice(["pos","neg"])))
    for m,strat in [("replacement",None),("single_pass",None),("single_pass","by_label"),("replacement","by_label"),("dynamic",None)]:
        cfg=BootstrapConfig(sampling_method=m,stratified_sampling=strat)
        np.random.seed(int(rng.integers(0,2**31)))
        cp=collections.Counter(); cn=collections.Counter(); sz=np.zeros(4)
        for k in range(K):
            b=s.bootstrap_sample(cfg)
            sz+=[b.nb_hard_pos,b.nb_hard_neg,b.nb_easy_pos,b.nb_easy_neg]
            u,c=np.unique(b.pos,return_counts=True); cp.update(dict(zip(u.tolist(),c.tolist())))
            u,c=np.unique(b.neg,return_counts=True); cn.update(dict(zip(u.tolist(),c.tolist())))
        nall=N+M+ep+en
        exp=np.array([N,M,ep,en],float)
        # variance proxy per sample for sizes: <= nall*q(1-q) + mean (single pass extra) 
        for j,(e_,name) in enumerate(zip(exp,["hp","hn","ep","en"])):
            q=e_/nall; v=K*(nall*q*(1-q)+e_)   # generous
            t=bern_t(v) if v>0 else 0
            d=abs(sz[j]-K*e_)
            tot["size"]+=1
            if v>0: worstz=max(worstz,d/t)
            if d>t+1e-9: alarms[("size",m,strat,name)]+=1
        for vals,cnt_,n_ in ((pos,cp,N),(neg,cn,M)):
            t=bern_t(1.3*K)
            for v_ in vals.tolist():
                tot["mult"]+=1
                d=abs(cnt_.get(v_,0)-K)
                worstz=max(worstz,d/t)
                if d>t: alarms[("mult",m,strat)]+=1
                if cnt_.get(v_,0)==0: alarms[("unreached",m,strat)]+=1
print(dict(tot),dict(alarms),"worst ratio to bound",round(worstz,3),"time",round(time.time()-t0,1))
