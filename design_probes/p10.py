import warnings; warnings.filterwarnings("ignore")
import numpy as np, itertools, collections
from score_analysis import Scores, GroupScores, BootstrapConfig
# single pass at-least-one
s=Scores([1.,2.],[3.,4.,5.])
np.random.seed(0)
c=collections.Counter()
for m in ["single_pass","replacement"]:
  for strat in [None,"by_label"]:
    cfg=BootstrapConfig(sampling_method=m, stratified_sampling=strat)
    z=0
    for i in range(2000):
        b=s.bootstrap_sample(cfg)
        if b.nb_hard_pos==0 or b.nb_hard_neg==0: z+=1
    print(m,strat,"samples with an empty class:",z,"/2000")
# empty classes
for m in ["replacement","single_pass","dynamic"]:
  for strat in [None,"by_label"]:
    for pos,neg in [([],[1.,2.]),([1.],[]),([],[])]:
        try:
            b=Scores(pos,neg,nb_easy_pos=2).bootstrap_sample(BootstrapConfig(sampling_method=m,stratified_sampling=strat))
            print(m,strat,pos,neg,"ok",b.pos,b.neg,b.nb_easy_pos,b.nb_easy_neg)
        except Exception as e: print(m,strat,pos,neg,"EXC",type(e).__name__,e)
# group lacking class, by_group
g=GroupScores(pos=[1.,2.,3.],neg=[0.,1.5],pos_groups=["a","a","b"],neg_groups=["a","a"])
for m in ["replacement","single_pass","dynamic"]:
  for strat in [None,"by_label","by_group"]:
    try:
        b=g.bootstrap_sample(BootstrapConfig(sampling_method=m,stratified_sampling=strat))
        print("group",m,strat,"ok",b.pos,b.pos_groups,b.neg,b.neg_groups,b.groups, b.neg_groups.dtype)
    except Exception as e: print("group",m,strat,"EXC",type(e).__name__,e)
g=GroupScores(pos=[1.,2.,3.],neg=[0.,1.5],pos_groups=[0,0,1],neg_groups=[0,0])
try:
    b=g.bootstrap_sample(BootstrapConfig(sampling_method="replacement",stratified_sampling="by_group"))
    print("int groups ok", b.neg_groups, b.neg_groups.dtype, b[0].neg, b[1].neg)
except Exception as e: print("EXC",type(e).__name__,e)
