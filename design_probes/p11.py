import warnings; warnings.filterwarnings("ignore")
import numpy as np, itertools, collections
from score_analysis import Scores, BootstrapConfig, roc_with_ci
from score_analysis.experimental import pointwise_band_ci, simultaneous_joint_region_ci, fixed_width_band_ci
rng=np.random.default_rng(2)
res=collections.Counter()
for it in range(300):
    N=int(rng.integers(1,30)); M=int(rng.integers(1,30))
    mode=rng.integers(0,3)
    if mode==0: pos=rng.normal(1,1,N); neg=rng.normal(-1,1,M)
    elif mode==1: pos=rng.integers(0,4,N).astype(float); neg=rng.integers(0,4,M).astype(float)
    else: pos=rng.normal(3,1,N); neg=rng.normal(-3,1,M)
    sc=str(rng.choice(["pos","neg"])); ec=str(rng.choice(["pos","neg"]))
    s=Scores(pos,neg,score_class=sc,equal_class=ec)
    alpha=float(rng.choice([0.01,0.05,0.2,0.5]))
    bm=str(rng.choice(["quantile","bc","bca"]))
    cfg=BootstrapConfig(nb_samples=int(rng.integers(1,40)),bootstrap_method=bm,sampling_method="replacement")
    nbp=rng.choice([None,2,7,20])
    nbp=None if nbp is None else int(nbp)
    for f in (roc_with_ci,pointwise_band_ci,simultaneous_joint_region_ci,fixed_width_band_ci):
        np.random.seed(int(rng.integers(0,2**31)))
        try:
            r=f(s,nb_points=nbp,alpha=alpha,config=cfg)
        except Exception as e:
            res[(f.__name__,"EXC",type(e).__name__,str(e)[:60])]+=1
            if res[(f.__name__,"EXC",type(e).__name__,str(e)[:60])]<3: print(f.__name__,N,M,mode,sc,ec,alpha,bm,cfg.nb_samples,nbp,"EXC",e)
            continue
        n=len(r.thresholds)
        ok = r.fnr_ci.shape==(n,2) and r.fpr_ci.shape==(n,2)
        rates = np.array_equal(r.fnr,s.fnr(r.thresholds)) and np.array_equal(r.fpr,s.fpr(r.thresholds))
        nan = np.isnan(r.fnr_ci).any() or np.isnan(r.fpr_ci).any()
        order = np.all(r.fnr_ci[:,0]<=r.fnr_ci[:,1]) and np.all(r.fpr_ci[:,0]<=r.fpr_ci[:,1])
        in01 = (r.fnr_ci.min()>=0 and r.fnr_ci.max()<=1 and r.fpr_ci.min()>=0 and r.fpr_ci.max()<=1) if n else True
        res[(f.__name__,"shape" if ok else "BADSHAPE")]+=1
        if not rates: res[(f.__name__,"RATES")]+=1
        if nan: res[(f.__name__,"NAN")]+=1
        if not order:
            res[(f.__name__,"ORDER")]+=1
            if res[(f.__name__,"ORDER")]<3: print(f.__name__,"ORDER",N,M,mode,sc,ec,alpha,bm,cfg.nb_samples,nbp)
        if not in01: res[(f.__name__,"OUT01")]+=1
for k in sorted(res): print(k,res[k])
