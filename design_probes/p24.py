import warnings; warnings.filterwarnings("ignore")
import numpy as np, pandas as pd
from score_analysis import Scores, showbias, BootstrapConfig, utils
for m in ["quantile","bc","bca"]:
    for th,hat,name in [(np.array([[1.],[2.],[3.]]),np.array([np.nan]),"nan estimate"),(np.array([[np.nan],[np.nan]]),np.array([1.0]),"all-nan column")]:
        try: print(m,name,utils.bootstrap_ci(th,hat,0.1,method=m))
        except Exception as e: print(m,name,"EXC",type(e).__name__,e)
df=pd.DataFrame({"g":["a","a","b","b"],"label":[1,0,0,0],"score":[.2,.7,.4,.9]})
for m in ["quantile","bc","bca"]:
    try:
        r=showbias(df,"g","label","score","fnr",bootstrap_ci=True,bootstrap_config=BootstrapConfig(nb_samples=20,bootstrap_method=m,stratified_sampling="by_group"),threshold=[0.5])
        print("showbias",m,r.values.to_numpy().tolist(),r.lower.to_numpy().tolist())
    except Exception as e: print("showbias",m,"EXC",type(e).__name__,e)
try: print(Scores([], [1.,2.]).bootstrap_ci("tpr",threshold=1.0,config=BootstrapConfig(nb_samples=5)))
except Exception as e: print("Scores.bootstrap_ci EXC",type(e).__name__,e)
