import warnings; warnings.filterwarnings("ignore")
import numpy as np, itertools, collections
from score_analysis import Scores
metrics = ["tpr","fnr","tnr","fpr","topr","tonr"]
rng = np.random.default_rng(7)
def step(t, k):
    for _ in range(abs(k)):
        t = np.nextafter(t, np.inf if k>0 else -np.inf)
    return t
bad = collections.defaultdict(list); tot = collections.Counter()
worst = collections.defaultdict(float)
for it in range(4000):
    N = rng.integers(1, 12); M = rng.integers(1, 12)
    ties = rng.random() < 0.5
    if ties:
        pos = rng.integers(0, 5, size=N).astype(float); neg = rng.integers(0, 5, size=M).astype(float)
    else:
        a = rng.permutation(100)[:N+M].astype(float) * 0.37 - 10; pos, neg = a[:N], a[N:]
    ep, en = rng.choice([0,0,1,3,10]), rng.choice([0,0,2,5,17])
    for sc, ec in itertools.product(["pos","neg"], repeat=2):
        s = Scores(pos, neg, nb_easy_pos=int(ep), nb_easy_neg=int(en), score_class=sc, equal_class=ec)
        for m in metrics:
            Nall = {"tpr":N+ep,"fnr":N+ep,"tnr":M+en,"fpr":M+en,"topr":N+M+ep+en,"tonr":N+M+ep+en}[m]
            lo, hi = {"tpr":(ep/Nall,1),"fnr":(0,N/Nall),"tnr":(en/Nall,1),"fpr":(0,M/Nall),
                      "topr":(ep/Nall,(ep+N+M)/Nall),"tonr":(en/Nall,(en+N+M)/Nall)}[m]
            for r in list(rng.uniform(-0.2,1.2,size=3)) + [rng.integers(0,Nall+1)/Nall]:
                rc = min(max(r, lo), hi)
                t = getattr(s,"threshold_at_"+m)(r)
                f = getattr(s, m)
                vals = [f(step(t,-3)), f(t), f(step(t,3))]
                key = (m, sc, ec, "ties" if ties else "noties")
                tot[key]+=1
                tol = 1/Nall + 1e-9
                if ties:
                    ok = min(vals)-tol <= rc <= max(vals)+tol
                    err = max(min(vals)-rc, rc-max(vals), 0)
                else:
                    ok = abs(vals[1]-rc) <= tol
                    err = abs(vals[1]-rc)
                worst[key] = max(worst[key], err*Nall)
                if not ok: bad[key].append((list(pos), list(neg), int(ep), int(en), r, t, vals, Nall))
for k in sorted(tot):
    print(k, "fail %d/%d"%(len(bad.get(k,[])), tot[k]), "worst err (in samples): %.3f"%worst[k], bad.get(k,[])[:1])
