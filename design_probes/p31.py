import warnings; warnings.filterwarnings("ignore")
import numpy as np, math, collections, itertools
from fractions import Fraction as F
from statistics import NormalDist
from score_analysis import Scores, metrics
from score_analysis.utils import invert_pl_function
from score_analysis.experimental import NormalDataset
rng=np.random.default_rng(202)
bad=collections.Counter(); worst=collections.defaultdict(float)
# C04 floats
for it in range(3000):
    lead=tuple(rng.integers(0,4,size=int(rng.integers(0,3))))
    m=np.where(rng.random(lead+(2,2))<.3,0.0,10.0**rng.uniform(-6,9,size=lead+(2,2)))
    tp,fn,fp,tn=m[...,0,0],m[...,0,1],m[...,1,0],m[...,1,1]
    R={k:np.asarray(getattr(metrics,k)(m)) for k in ["tpr","fnr","tnr","fpr","ppv","fdr","npv","for_","topr","tonr","accuracy","error_rate"]}
    den={"tpr":tp+fn,"fnr":tp+fn,"tnr":fp+tn,"fpr":fp+tn,"ppv":tp+fp,"fdr":tp+fp,"npv":tn+fn,"for_":tn+fn,"topr":tp+fn+fp+tn,"tonr":tp+fn+fp+tn,"accuracy":tp+fn+fp+tn,"error_rate":tp+fn+fp+tn}
    for k,v in R.items():
        if not np.array_equal(np.isnan(v),den[k]==0): bad[("c4nan",k)]+=1
        if np.any((v<0)|(v>1)): bad[("c4range",k)]+=1
    for a,b in [("tpr","fnr"),("tnr","fpr"),("ppv","fdr"),("npv","for_"),("topr","tonr"),("accuracy","error_rate")]:
        s=R[a]+R[b]
        if s.size: 
            e=np.nanmax(np.abs(s-1)) if not np.all(np.isnan(s)) else 0; worst["c4compl"]=max(worst["c4compl"],e)
            if e>1e-12: bad[("c4compl",a)]+=1
    p_,n_,top,ton,pop=metrics.p(m),metrics.n(m),metrics.top(m),metrics.ton(m),metrics.pop(m)
    if p_.size:
        e=max(np.max(np.abs((p_+n_)-pop)/np.maximum(pop,1e-300)),np.max(np.abs((top+ton)-pop)/np.maximum(pop,1e-300))); worst["c4pop"]=max(worst["c4pop"],e)
    al=float(rng.uniform(1e-6,1-1e-6)); z=NormalDist().inv_cdf(1-al/2)
    ci=metrics.tpr_ci(m,al); n=tp+fn
    with np.errstate(all="ignore"):
        p=np.where(n!=0,tp/np.where(n==0,1,n),np.nan); hw=z*np.sqrt(p*(1-p)/np.where(n==0,1,n))
    if ci.size:
        ok=np.isclose(ci[...,0],p-hw,rtol=1e-9,atol=1e-12,equal_nan=True)&np.isclose(ci[...,1],p+hw,rtol=1e-9,atol=1e-12,equal_nan=True)
        if not ok.all(): bad["c4ci"]+=1
# C06/C07 larger tie-free floats
def mw(pos,neg,ep,en,sc):
    w=0
    for p in pos:
        w+=sum(1 for n in neg if (p>n if sc=="pos" else p<n))*2+sum(1 for n in neg if p==n)
    return (F(w,2)+ep*(len(neg)+en)+len(pos)*en)/((len(pos)+ep)*(len(neg)+en))
for it in range(400):
    N=int(rng.integers(1,80)); M=int(rng.integers(1,80))
    a=(rng.permutation(5000)[:N+M]+rng.uniform(-.3,.3,N+M))*10.0**rng.integers(-3,3)+float(rng.uniform(-1e3,1e3)); pos,neg=a[:N],a[N:]
    ep,en=int(rng.choice([0,0,5,60])),int(rng.choice([0,0,9,70]))
    for sc,ec in itertools.product(["pos","neg"],repeat=2):
        s=Scores(pos,neg,nb_easy_pos=ep,nb_easy_neg=en,score_class=sc,equal_class=ec)
        t,e=s.eer(); d1=abs(s.fpr(t)-e)*(M+en); d2=abs(s.fnr(t)-e)*(N+ep)
        worst["eer"]=max(worst["eer"],d1,d2)
        if d1>1+1e-6 or d2>1+1e-6 or not (0<=e<=min(s.hard_pos_ratio,s.hard_neg_ratio)+1e-9): bad["eer"]+=1
        ref=float(mw(pos.tolist(),neg.tolist(),ep,en,sc)); worst["auc"]=max(worst["auc"],abs(s.auc()-ref))
        if abs(s.auc()-ref)>1e-9: bad["auc"]+=1
        lo,up=sorted(rng.random(2)); mid=(lo+up)/2
        e_=abs(s.auc(lo,up)-s.auc(lo,mid)-s.auc(mid,up)); worst["add"]=max(worst["add"],e_)
        if e_>1e-9 or s.auc(lo,up)>up-lo+1e-12: bad["aucadd"]+=1
# C17 arbitrary floats
def fexact(x,y,z):
    if len(x)==1: return y[0]
    for i in range(len(x)-1):
        if x[i]<=z<=x[i+1]:
            if x[i]==x[i+1]: return y[i]
            return y[i]+(y[i+1]-y[i])*(z-x[i])/(x[i+1]-x[i])
    raise ValueError
for it in range(3000):
    n=int(rng.integers(1,10)); xs=np.sort(rng.normal(size=n)*10.0**rng.integers(-3,4)); ys=rng.normal(size=n)*10.0**rng.integers(-3,4)
    ts=np.concatenate([rng.choice(ys,2),rng.uniform(ys.min()-1,ys.max()+1,3),[(ys.min()+ys.max())/2]])
    res=invert_pl_function(xs,ys,ts)
    fx=[F(v) for v in xs.tolist()]; fy=[F(v) for v in ys.tolist()]
    scale=max(1e-300,np.max(np.abs(ys)))
    for t,sol in zip(ts,res):
        sol=np.asarray(sol).ravel()
        if ys.min()<=t<=ys.max():
            for z in sol:
                if not xs[0]<=z<=xs[-1]: bad["c17range"]+=1; continue
                err=abs(float(fexact(fx,fy,F(float(z)))-F(float(t))))/scale; worst["c17"]=max(worst["c17"],err)
                if err>1e-9: bad["c17sol"]+=1
            if np.any(np.diff(sol)<0): bad["c17order"]+=1
            if np.any(np.diff(sol)==0): bad["c17equal"]+=1
        else:
            d=np.abs(ys-t)
            if sol.size!=1 or not any(xs[i]==sol[0] and d[i]==d.min() for i in range(n)): bad["c17fb"]+=1
# C20 extremes
for it in range(3000):
    d=NormalDataset(mu_pos=float(rng.uniform(-50,50)),mu_neg=float(rng.uniform(-50,50)),sigma_pos=float(np.exp(rng.uniform(-3,3))),sigma_neg=float(np.exp(rng.uniform(-3,3))))
    r=float(10.0**rng.uniform(-9,-0.001)); r=r if rng.random()<.5 else 1-r
    if not 0<r<1: continue
    e1=abs(d.fnr(d.threshold_at_fnr(r))-r)/min(r,1-r) ; e2=abs(d.fpr(d.threshold_at_fpr(r))-r)/min(r,1-r)
    worst["c20inv"]=max(worst["c20inv"],e1,e2)
print(dict(bad)); print({k:float(v) for k,v in worst.items()})
