import warnings; warnings.filterwarnings("ignore")
import numpy as np
from score_analysis import Scores, BootstrapConfig
from score_analysis.experimental import pointwise_band_ci, simultaneous_joint_region_ci, fixed_width_band_ci
import score_analysis; print(score_analysis.__file__)
rng = np.random.default_rng(0)
s = Scores(pos=rng.normal(1,1,50), neg=rng.normal(-1,1,50))
for f in (pointwise_band_ci, simultaneous_joint_region_ci, fixed_width_band_ci):
    try:
        r = f(s, nb_points=20, config=BootstrapConfig(nb_samples=20))
        print(f.__name__, "ok", r.fnr.shape, r.fnr_ci.shape)
    except Exception as e:
        print(f.__name__, "EXC", type(e).__name__, e)
