import warnings; warnings.filterwarnings("ignore")
import numpy as np
from score_analysis.utils import bootstrap_ci
rng=np.random.default_rng(12); worst=0; n=0
for it in range(3000):
    N=int(rng.integers(1,60)); Y=int(rng.integers(2,4))
    th=rng.normal(size=(N,Y)) if rng.random()<.5 else np.round(np.exp(rng.normal(size=(N,Y))),2)
    hat=rng.normal(size=Y); a1=float(rng.uniform(0.001,0.999))
    c=bootstrap_ci(th,hat,a1,method="bca")
    for j in range(Y):
        cj=bootstrap_ci(th[:,j],hat[j],a1,method="bca")
        d=np.max(np.abs(cj-c[j]))/max(1,np.max(np.abs(th[:,j])))
        worst=max(worst,d); n+= d>0
print(n,worst)
