import warnings; warnings.filterwarnings("ignore")
import numpy as np, math, collections, itertools
from score_analysis import Scores, pointwise_cm, roc_with_ci, BootstrapConfig
rng=np.random.default_rng(66)
bad=collections.Counter(); tot=collections.Counter()
import operator
OPS={("pos","pos"):operator.ge,("pos","neg"):operator.gt,("neg","pos"):operator.le,("neg","neg"):operator.lt}
for it in range(1500):
    N=int(rng.integers(0,8)); M=int(rng.integers(0,8))
    kind=rng.integers(0,4)
    if kind==0: pos=rng.integers(0,4,N); neg=rng.integers(0,4,M)        # int dtype
    elif kind==1: pos=rng.integers(0,4,N)*.5; neg=rng.integers(0,4,M)*.5
    elif kind==2: pos=rng.normal(size=N)*10.0**rng.integers(-3,6); neg=rng.normal(size=M)
    else:
        base=rng.normal(size=3); pos=rng.choice(np.concatenate([base,np.nextafter(base,np.inf)]),N); neg=rng.choice(np.concatenate([base,np.nextafter(base,-np.inf)]),M)
    allv=np.concatenate([pos,neg]).astype(float)
    cand=np.concatenate([allv,np.nextafter(allv,np.inf),np.nextafter(allv,-np.inf),[np.inf,-np.inf,0.0],rng.normal(size=2)])
    shape=[(),(3,),(2,2),(0,),(2,0,2),(1,1,1)][int(rng.integers(0,6))]
    th=rng.choice(cand,size=shape)
    ep,en=int(rng.choice([0,1,4])),int(rng.choice([0,2,5]))
    for sc,ec in OPS:
        s=Scores(pos,neg,nb_easy_pos=ep,nb_easy_neg=en,score_class=sc,equal_class=ec)
        got=s.cm(th).matrix
        op=OPS[(sc,ec)]
        ref=np.zeros(shape+(2,2),dtype=int)
        for idx in np.ndindex(*shape):
            t=float(th[idx]); tp=sum(1 for x in pos if op(float(x),t)); fp=sum(1 for x in neg if op(float(x),t))
            ref[idx]=[[tp+ep,N-tp],[fp,M-fp+en]]
        tot["cm"]+=1
        if got.shape!=ref.shape or not np.array_equal(got,ref): bad["cm"]+=1
        if len(shape)==0 or 0 not in shape:
            lab=np.concatenate([np.ones(N),np.zeros(M)]); 
            pw=pointwise_cm(lab,np.concatenate([pos,neg]),th,score_class=sc,equal_class=ec)
            refp=ref.copy(); refp[...,0,0]-=ep; refp[...,1,1]-=en
            if not np.array_equal(pw.sum(axis=0),refp): bad["pw"]+=1
            if not np.all(pw.sum(axis=(-1,-2))==1): bad["pw1"]+=1
print(dict(tot),dict(bad))
# C16 closed form under identity sampler
bad=collections.Counter(); n_=0
for it in range(300):
    N=int(rng.integers(1,10)); M=int(rng.integers(1,10))
    if rng.random()<.5: pos=rng.integers(0,5,N)*.5; neg=rng.integers(0,5,M)*.5
    else: a=rng.permutation(40)[:N+M]*.5; pos,neg=a[:N],a[N:]
    easy = rng.random()<.3
    ep,en=(int(rng.choice([0,2])),int(rng.choice([0,3]))) if easy else (0,0)
    sc,ec=str(rng.choice(["pos","neg"])),str(rng.choice(["pos","neg"]))
    s=Scores(pos,neg,nb_easy_pos=ep,nb_easy_neg=en,score_class=sc,equal_class=ec)
    alpha=float(rng.choice([.01,.05,.3])); bm=str(rng.choice(["quantile","bc","bca"]))
    cfg=BootstrapConfig(nb_samples=3,sampling_method=lambda x:x,bootstrap_method=bm)
    kw={}
    c=rng.integers(0,4)
    if c==0: kw["fnr"]=rng.uniform(0,1,3)
    elif c==1: kw["fpr"]=rng.uniform(0,1,2)
    elif c==2: kw["thresholds"]=rng.uniform(0,20,3)
    else: kw["nb_points"]=int(rng.integers(2,12))
    x_axis=str(rng.choice(["fpr","fnr","tpr","tnr"]))
    r=roc_with_ci(s,alpha=alpha,config=cfg,x_axis=x_axis,**kw)
    n_+=1
    fnr,fpr=s.fnr(r.thresholds),s.fpr(r.thresholds)
    if not (np.array_equal(fnr,r.fnr) and np.array_equal(fpr,r.fpr)): bad["rates"]+=1
    vfnr=s.fnr(s.threshold_at_fpr(fpr)); vfpr=s.fpr(s.threshold_at_fnr(fnr))
    def r3(p,v,n):
        ci=np.stack([v,v],-1)
        for i in range(len(p)):
            if p[i]==0: ci[i]=[0,1-alpha**(1/n)]
            elif p[i]==1: ci[i]=[alpha**(1/n),1]
        return ci
    cfnr=r3(fnr,vfnr,N); cfpr=r3(fpr,vfpr,M)     # hard counts as in code
    def env(x,dx,dy):
        out=np.empty((len(x),2))
        for i in range(len(x)):
            lo,hi=dy[i,0],dy[i,1]
            for j in range(len(x)):
                if dx[j,0]<=x[i]<=dx[j,1]: lo=min(lo,dy[j,0]); hi=max(hi,dy[j,1])
            out[i]=[lo,hi]
        return out
    efpr=env(fnr,cfnr,cfpr); efnr=env(fpr,cfpr,cfnr)
    k="easy" if (ep or en) else "noeasy"
    if not (np.allclose(efpr,r.fpr_ci,atol=1e-12) and np.allclose(efnr,r.fnr_ci,atol=1e-12)): bad[("closed",k)]+=1
    if np.isnan(r.fnr_ci).any() or np.isnan(r.fpr_ci).any(): bad["nan"]+=1
    if (r.fnr_ci[:,0]>r.fnr_ci[:,1]).any() or (r.fpr_ci[:,0]>r.fpr_ci[:,1]).any(): bad["order"]+=1
    if min(r.fnr_ci.min(),r.fpr_ci.min())<0 or max(r.fnr_ci.max(),r.fpr_ci.max())>1: bad["01"]+=1
print(n_,dict(bad))
