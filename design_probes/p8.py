import warnings; warnings.filterwarnings("ignore")
import numpy as np, itertools, collections
from score_analysis import Scores
rng = np.random.default_rng(11)
metrics = ["tpr","fnr","tnr","fpr","topr","tonr"]
bad=collections.Counter(); tot=collections.Counter(); worst=collections.defaultdict(float)
flip={"pos":"neg","neg":"pos"}
for it in range(1500):
    N=rng.integers(1,9); M=rng.integers(1,9)
    ties=rng.random()<0.4
    if ties: pos=rng.integers(0,5,size=N)*0.5; neg=rng.integers(0,5,size=M)*0.5
    else:
        a=rng.permutation(64)[:N+M]*0.25-4; pos,neg=a[:N],a[N:]
    ep,en=int(rng.choice([0,0,1,3])),int(rng.choice([0,0,2,5]))
    rng_ = max(pos.max(),neg.max())-min(pos.min(),neg.min())+1
    for sc,ec in itertools.product(["pos","neg"],repeat=2):
        S=Scores(pos,neg,nb_easy_pos=ep,nb_easy_neg=en,score_class=sc,equal_class=ec)
        Sn=Scores(-pos,-neg,nb_easy_pos=ep,nb_easy_neg=en,score_class=flip[sc],equal_class=ec)
        a_,b_=float(rng.choice([0.5,2,3,0.1,7.3])), float(rng.uniform(-50,50))
        Sa=Scores(a_*pos+b_,a_*neg+b_,nb_easy_pos=ep,nb_easy_neg=en,score_class=sc,equal_class=ec)
        th=np.concatenate([pos,neg,rng.uniform(-5,5,size=4)])
        tot["cm_neg"]+=1
        if not np.array_equal(S.cm(th).matrix, Sn.cm(-th).matrix): bad["cm_neg"]+=1
        sw=S.swap()
        m=S.cm(th).matrix; ms=sw.cm(th).matrix
        tot["swap"]+=1
        if not np.array_equal(ms, m[...,::-1,::-1]): bad["swap"]+=1
        for mname in metrics:
            r=np.concatenate([rng.uniform(-0.1,1.1,size=4),[0,1,0.5]])
            t=getattr(S,"threshold_at_"+mname)(r); tn=getattr(Sn,"threshold_at_"+mname)(r); ta=getattr(Sa,"threshold_at_"+mname)(r)
            tot["thr_neg"]+=1; tot["thr_aff"]+=1
            e1=np.max(np.abs(t+tn))/rng_; e2=np.max(np.abs(ta-(a_*t+b_)))/(a_*rng_+abs(b_)+1)
            worst["neg"]=max(worst["neg"],e1); worst["aff"]=max(worst["aff"],e2)
            if e1>1e-9: bad["thr_neg"]+=1
            if e2>1e-9: bad["thr_aff"]+=1
        # C09 materialised
        allv=np.concatenate([pos,neg]); lo,hi=allv.min(),allv.max()
        if sc=="pos":
            mp=np.concatenate([pos, hi+1+np.arange(ep)]); mn=np.concatenate([neg, lo-1-np.arange(en)])
        else:
            mp=np.concatenate([pos, lo-1-np.arange(ep)]); mn=np.concatenate([neg, hi+1+np.arange(en)])
        Sm=Scores(mp,mn,score_class=sc,equal_class=ec)
        th=np.concatenate([allv, np.nextafter(allv,np.inf), np.nextafter(allv,-np.inf), [lo-0.5,hi+0.5], rng.uniform(lo-0.9,hi+0.9,size=3)])
        tot["c9cm"]+=1
        if not np.array_equal(S.cm(th).matrix,Sm.cm(th).matrix): bad["c9cm"]+=1
        l,u=sorted(rng.random(2))
        tot["c9auc"]+=1
        if abs(S.auc()-Sm.auc())>1e-12 or abs(S.auc(l,u)-Sm.auc(l,u))>1e-12:
            bad["c9auc"]+=1
        for mname in metrics:
            rel={"tpr":pos,"fnr":pos,"tnr":neg,"fpr":neg,"topr":allv,"tonr":allv}[mname]
            r=np.concatenate([rng.uniform(0,1,size=6), np.arange(0,len(mp)+len(mn)+1)/(len(mp)+len(mn))])
            tm=getattr(Sm,"threshold_at_"+mname)(r); te=getattr(S,"threshold_at_"+mname)(r)
            ok=(tm>=rel.min())&(tm<=rel.max())
            tot["c9thr"]+=int(ok.sum())
            if ok.any():
                e=np.max(np.abs(tm[ok]-te[ok]))/rng_
                worst["c9"]=max(worst["c9"],e)
                if e>1e-9:
                    bad["c9thr"]+=1
                    if bad["c9thr"]<5: print("C9",mname,sc,ec,list(pos),list(neg),ep,en,r[ok][np.argmax(np.abs(tm[ok]-te[ok]))],tm[ok],te[ok])
print(dict(tot)); print(dict(bad)); print(dict(worst))
