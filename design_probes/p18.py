import warnings; warnings.filterwarnings("ignore")
import numpy as np, math, collections, itertools, pandas as pd
from statistics import NormalDist
from score_analysis import ConfusionMatrix, metrics
rng=np.random.default_rng(44)
bad=collections.Counter(); tot=collections.Counter()
# C04
for it in range(3000):
    lead=tuple(rng.integers(0,4,size=int(rng.integers(0,3))))
    kind=rng.integers(0,3)
    if kind==0: m=rng.integers(0,6,size=lead+(2,2))
    elif kind==1: m=rng.integers(0,3,size=lead+(2,2))*rng.choice([0,1,1000003],size=lead+(2,2))
    else: m=rng.integers(0,4,size=lead+(2,2))*0.37
    tot["c4"]+=1
    tp,fn,fp,tn=m[...,0,0],m[...,0,1],m[...,1,0],m[...,1,1]
    R={k:np.asarray(getattr(metrics,k)(m)) for k in ["tpr","fnr","tnr","fpr","ppv","fdr","npv","for_","topr","tonr","accuracy","error_rate"]}
    den={"tpr":tp+fn,"fnr":tp+fn,"tnr":fp+tn,"fpr":fp+tn,"ppv":tp+fp,"fdr":tp+fp,"npv":tn+fn,"for_":tn+fn,"topr":tp+fn+fp+tn,"tonr":tp+fn+fp+tn,"accuracy":tp+fn+fp+tn,"error_rate":tp+fn+fp+tn}
    for k,v in R.items():
        if v.shape!=lead: bad[("shape",k)]+=1
        if not np.array_equal(np.isnan(v), den[k]==0): bad[("nanlocus",k)]+=1
        if np.any((v<0)|(v>1)): bad[("range",k)]+=1
    for a,b in [("tpr","fnr"),("tnr","fpr"),("ppv","fdr"),("npv","for_"),("topr","tonr"),("accuracy","error_rate")]:
        s=R[a]+R[b]; ok=np.isnan(s)|(np.abs(s-1)<1e-12)
        if not ok.all(): bad[("compl",a)]+=1
    alpha=float(rng.uniform(0.001,0.999)); z=NormalDist().inv_cdf(1-alpha/2)
    for k,c,n in [("tpr_ci",tp,tp+fn),("fnr_ci",fn,tp+fn),("tnr_ci",tn,fp+tn),("fpr_ci",fp,fp+tn)]:
        ci=getattr(metrics,k)(m,alpha)
        if ci.shape!=lead+(2,): bad[("cishape",k)]+=1
        with np.errstate(all="ignore"):
            p=np.where(n!=0,c/np.where(n==0,1,n),np.nan); hw=z*np.sqrt(p*(1-p)/np.where(n==0,1,n))
        if not np.allclose(ci[...,0],p-hw,equal_nan=True,rtol=1e-9,atol=1e-12) or not np.allclose(ci[...,1],p+hw,equal_nan=True,rtol=1e-9,atol=1e-12): bad[("civalue",k)]+=1
    if not np.allclose(metrics.tpr_ci(m,alpha), 1-metrics.fnr_ci(m,alpha)[...,::-1],equal_nan=True,atol=1e-12): bad["mirror"]+=1
# C05
for it in range(1500):
    K=int(rng.integers(2,6)); n=int(rng.integers(0,25))
    cls=list(rng.choice([0,1,2,3,5,8,13],size=K,replace=False)) if rng.random()<.5 else list(rng.choice(["a","b","cc","d","e_","F"],size=K,replace=False))
    lab=rng.choice(cls,size=n); pred=rng.choice(cls,size=n)
    w=None if rng.random()<.4 else (rng.integers(1,5,size=n) if rng.random()<.5 else rng.integers(1,9,size=n)*0.25)
    order=list(rng.permutation(cls))
    tot["c5"]+=1
    try: cm=ConfusionMatrix(labels=lab,predictions=pred,weights=w,classes=order)
    except Exception as e: bad[("EXC",type(e).__name__,str(e)[:50])]+=1; continue
    ref=np.zeros((K,K))
    for i in range(n): ref[order.index(lab[i]),order.index(pred[i])]+= 1 if w is None else w[i]
    if not np.array_equal(cm.matrix,ref): bad["build"]+=1
    if list(cm.classes)!=order: bad["classes"]+=1
    # equivalent inputs
    d={r:{c:ref[order.index(r),order.index(c)] for c in rng.permutation(cls)} for r in rng.permutation(cls)}
    o2=list(rng.permutation(cls))
    cm2=ConfusionMatrix(matrix=d,classes=o2)
    idx=[order.index(c) for c in o2]
    if not np.array_equal(cm2.matrix,ref[np.ix_(idx,idx)]): bad["dict"]+=1
    r_=list(rng.permutation(cls)); c_=list(rng.permutation(cls))
    df=pd.DataFrame(ref[np.ix_([order.index(c) for c in r_],[order.index(c) for c in c_])],index=r_,columns=c_)
    cm3=ConfusionMatrix(matrix=df,classes=o2)
    if not np.array_equal(cm3.matrix,ref[np.ix_(idx,idx)]): bad["df"]+=1
    cm4=ConfusionMatrix(matrix=ref[np.ix_(idx,idx)].tolist(),classes=o2)
    # ova
    lead=tuple(rng.integers(0,3,size=int(rng.integers(0,3))))
    A=rng.integers(0,7,size=lead+(K,K))
    c=ConfusionMatrix(matrix=A,classes=order); o=c.one_vs_all().matrix
    if o.shape!=lead+(K,2,2): bad["ovashape"]+=1
    if not np.array_equal(o.sum(axis=(-1,-2)), np.broadcast_to(A.sum(axis=(-1,-2))[...,None],lead+(K,))): bad["ovapop"]+=1
    if not np.array_equal(o[...,0,0],np.diagonal(A,axis1=-2,axis2=-1)): bad["ovatp"]+=1
    if not np.array_equal(o[...,0,:].sum(-1),A.sum(-1)): bad["ovaP"]+=1
    if not np.array_equal(o[...,:,0].sum(-1),A.sum(-2)): bad["ovaTOP"]+=1
    for name in ["tpr","ppv","fnr","tp","class_accuracy","tpr_ci"]:
        v=getattr(c,name)(); dct=getattr(c,name)(as_dict=True)
        ax=-2 if name.endswith("_ci") else -1
        if v.shape[: v.ndim-(1 if ax==-2 else 0)] != lead+(K,): bad[("pcshape",name)]+=1
        for j,k in enumerate(order):
            if not np.array_equal(np.take(v,j,axis=ax),dct[k],equal_nan=True): bad[("asdict",name)]+=1
        perm=rng.permutation(K)
        cp=ConfusionMatrix(matrix=A[...,perm,:][...,:,perm],classes=[order[i] for i in perm])
        vp=getattr(cp,name)()
        if not np.array_equal(np.take(v,perm,axis=ax),vp,equal_nan=True): bad[("equiv",name)]+=1
    acc=c.accuracy(); tr=np.trace(A,axis1=-2,axis2=-1); pp=A.sum((-1,-2))
    with np.errstate(all="ignore"):
        if not np.allclose(acc,np.where(pp!=0,tr/np.where(pp==0,1,pp),np.nan),equal_nan=True): bad["acc"]+=1
print(dict(tot),dict(bad))
