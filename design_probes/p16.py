import warnings; warnings.filterwarnings("ignore")
import numpy as np, math, collections, itertools
from fractions import Fraction as F
from score_analysis import Scores, roc
from score_analysis.utils import invert_pl_function
rng=np.random.default_rng(21)
bad=collections.Counter(); tot=collections.Counter()
for it in range(0):
    N=int(rng.integers(1,10)); M=int(rng.integers(1,10))
    if rng.random()<.5: pos=rng.integers(0,5,N).astype(float); neg=rng.integers(0,5,M).astype(float)
    else: a=rng.permutation(50)[:N+M]*.5; pos,neg=a[:N],a[N:]
    ep,en=int(rng.choice([0,0,2])),int(rng.choice([0,0,3]))
    for sc,ec in itertools.product(["pos","neg"],repeat=2):
        s=Scores(pos,neg,nb_easy_pos=ep,nb_easy_neg=en,score_class=sc,equal_class=ec)
        fnr=None if rng.random()<.5 else rng.uniform(-.1,1.1,size=int(rng.integers(0,4)))
        fpr=None if rng.random()<.5 else rng.uniform(-.1,1.1,size=int(rng.integers(0,4)))
        thr=None if rng.random()<.5 else rng.uniform(-1,6,size=int(rng.integers(0,4)))
        nbp=[None,0,1,2,5,10][int(rng.integers(0,6))]
        for x_axis in ["fnr","fpr","tnr","tpr","far","frr","tar","trr"]:
            tot["roc"]+=1
            try:
                r=roc(s,fnr=fnr,fpr=fpr,thresholds=thr,nb_points=nbp,x_axis=x_axis)
            except Exception as e:
                bad[("EXC",type(e).__name__,str(e)[:50])]+=1; continue
            if not (len(r.fnr)==len(r.fpr)==len(r.thresholds)): bad["len"]+=1
            if not (np.array_equal(r.fnr,s.fnr(r.thresholds)) and np.array_equal(r.fpr,s.fpr(r.thresholds))): bad["rates"]+=1
            xs=getattr(r,x_axis)
            if np.any(np.diff(xs)<0): bad["mono"]+=1
            sup=[np.asarray(v) for v in (thr,) if v is not None]
            if fnr is not None: sup.append(s.threshold_at_fnr(fnr))
            if fpr is not None: sup.append(s.threshold_at_fpr(fpr))
            sup=np.concatenate(sup) if sup else np.zeros(0)
            if len(sup)>0:
                if not np.array_equal(np.sort(sup),np.sort(r.thresholds)): bad["contain"]+=1
            else:
                exp = (N+M) if nbp is None else nbp
                if len(r.thresholds)!=exp: bad["count"]+=1; 
                if nbp is None and not np.array_equal(np.sort(r.thresholds),np.sort(np.concatenate([pos,neg]))): bad["allscores"]+=1
print("roc",dict(tot),dict(bad))
# C17
def interp_exact(x,y,z):
    # PL interpolant at z (Fraction)
    if len(x)==1 and z==x[0]: return y[0]
    for i in range(len(x)-1):
        if x[i]<=z<=x[i+1]:
            if x[i]==x[i+1]: return y[i]
            return y[i]+(y[i+1]-y[i])*(z-x[i])/(x[i+1]-x[i])
    raise ValueError
bad=collections.Counter(); tot=0; worst=0
for it in range(5000):
    n=int(rng.integers(1,9))
    xs=np.sort(rng.integers(0,12,n)).astype(float)/4
    ys=rng.integers(-4,5,n).astype(float)/2
    for i in range(1,n):
        if xs[i]==xs[i-1]: ys[i]=ys[i-1]
    scalar=rng.random()<.3
    T=1 if scalar else int(rng.integers(0,4))
    ts=rng.choice(np.concatenate([ys,ys+.25,[ -5,5, 0.1]]),size=T)
    t_in = float(ts[0]) if scalar else ts
    tot+=1
    try:
        res=invert_pl_function(xs,ys,t_in)
    except Exception as e:
        bad[("EXC",n,type(e).__name__,str(e)[:40])]+=1; continue
    if scalar: 
        if isinstance(res,list): bad["scalar_not_bare"]+=1
        res=[res]
    if len(res)!=len(ts): bad["len"]+=1
    fx=[F(v) for v in xs]; fy=[F(v) for v in ys]
    for t,sol in zip(ts,res):
        sol=np.asarray(sol).ravel()
        attain = min(ys)<=t<=max(ys)
        if attain:
            for z in sol:
                if not (xs[0]<=z<=xs[-1]): bad["range"]+=1; continue
                err=abs(float(interp_exact(fx,fy,F(float(z))))-t); worst=max(worst,err)
                if err>1e-9: bad["notsol"]+=1
            if np.any(np.diff(sol)<=0): bad["notincr"]+=1
        else:
            if sol.size!=1: bad["fallback_size"]+=1
            else:
                d=np.abs(ys-t)
                if not any(xs[i]==sol[0] and d[i]==d.min() for i in range(n)): bad["fallback_val"]+=1
print("inv",tot,dict(bad),worst)
