import warnings; warnings.filterwarnings("ignore")
import numpy as np, itertools
from score_analysis import Scores
for sc, ec in itertools.product(["pos","neg"], repeat=2):
    s = Scores(pos=[1.,2.,3.,4.], neg=[1.5,2.5,3.5,4.5], score_class=sc, equal_class=ec)
    print(sc, ec)
    for m in ["tpr","fnr","tnr","fpr","topr","tonr"]:
        out=[]
        for r in [0.0, 0.25, 0.5, 1.0]:
            t = getattr(s,"threshold_at_"+m)(r)
            out.append((r, float(t), getattr(s,m)(t)))
        print("   ", m, out)
