import warnings; warnings.filterwarnings("ignore")
import numpy as np, itertools, collections
from score_analysis import Scores
for sc, ec in itertools.product(["pos","neg"], repeat=2):
    if sc=="pos": s = Scores([1.,2.,3.],[0.,0.5,1.], score_class=sc, equal_class=ec)
    else: s = Scores([0.,0.5,1.],[1.,2.,3.], score_class=sc, equal_class=ec)
    t,e = s.eer(); print(sc,ec,"boundary tie: t=",t,"e=",e,"fpr",s.fpr(t),"fnr",s.fnr(t))
# random tie-free EER relation
rng = np.random.default_rng(3)
bad=collections.Counter(); tot=0; worst=0; exc=collections.Counter()
for it in range(3000):
    N=rng.integers(1,15); M=rng.integers(1,15)
    a = rng.permutation(200)[:N+M].astype(float)*0.25-20
    pos,neg=a[:N],a[N:]
    mode = rng.integers(0,4)
    if mode==1: pos=np.sort(a)[M:]; neg=np.sort(a)[:M]   # separated
    if mode==2: pos=np.sort(a)[:N]; neg=np.sort(a)[N:]   # inverted
    ep,en = int(rng.choice([0,0,1,4,20])), int(rng.choice([0,0,2,3,15]))
    for sc, ec in itertools.product(["pos","neg"], repeat=2):
        s = Scores(pos,neg,nb_easy_pos=ep,nb_easy_neg=en,score_class=sc,equal_class=ec)
        tot+=1
        try:
            t,e = s.eer()
        except Exception as ex:
            exc[(type(ex).__name__, str(ex)[:50])]+=1; continue
        fpr,fnr = s.fpr(t), s.fnr(t)
        d1 = abs(fpr-e)*(M+en); d2=abs(fnr-e)*(N+ep)
        worst=max(worst,d1,d2)
        if not (0<=e<=1): bad["range"]+=1
        if d1>1+1e-6 or d2>1+1e-6:
            bad["relation"]+=1
            if bad["relation"]<6: print("REL", list(pos),list(neg),ep,en,sc,ec,t,e,fpr,fnr,d1,d2)
        if e > min(s.hard_pos_ratio,s.hard_neg_ratio)+1e-9: bad["cap"]+=1
        if e==0 and (fpr!=0 or fnr!=0): bad["zero"]+=1
print(tot,bad,exc,"worst",worst)
