import warnings; warnings.filterwarnings("ignore")
import numpy as np, pandas as pd, collections, operator, itertools
from score_analysis import showbias, ConfusionMatrix
rng=np.random.default_rng(8)
OPS={("pos","pos"):operator.ge,("pos","neg"):operator.gt,("neg","pos"):operator.le,("neg","neg"):operator.lt}
METRICS=["tp","tn","fp","fn","p","n","top","ton","pop","tpr","tnr","fpr","fnr","tar","frr","trr","far","topr","tonr","acceptance_rate","rejection_rate","ppv","npv","fdr","for_","accuracy","error_rate","class_accuracy","class_error_rate"]
bad=collections.Counter(); tot=0
def refmat(lab,sco,t,sc,ec,pl):
    op=OPS[(sc,ec)]
    tp=sum(1 for l,s in zip(lab,sco) if l==pl and op(s,t)); fn=sum(1 for l,s in zip(lab,sco) if l==pl and not op(s,t))
    fp=sum(1 for l,s in zip(lab,sco) if l!=pl and op(s,t)); tn=sum(1 for l,s in zip(lab,sco) if l!=pl and not op(s,t))
    return [[tp,fn],[fp,tn]]
for it in range(1500):
    n=int(rng.integers(1,25)); multi=rng.random()<.5
    vals1=list(rng.choice(["a","b","zz","Q r","é"],size=int(rng.integers(1,4)),replace=False)); vals2=["x","y-1","w"]
    g1=rng.choice(vals1,n); g2=rng.choice(vals2,n)
    pl=[1,0,"yes",7][int(rng.integers(0,4))]; other={1:0,0:1,"yes":"no",7:3}[pl]
    lab=np.where(rng.random(n)<.6,pl,other) if not isinstance(pl,str) else np.where(rng.random(n)<.6,"yes","no")
    sco=np.round(rng.random(n),1)
    df=pd.DataFrame({"g1":g1,"junk":np.arange(n),"g2":g2,"y":lab,"s":sco},index=rng.permutation(n)+100)
    before=df.copy()
    sc,ec=str(rng.choice(["pos","neg"])),str(rng.choice(["pos","neg"]))
    metric=str(rng.choice(METRICS)); norm=[None,"by_overall","by_min"][int(rng.integers(0,3))]
    thr=[0.5,[0.3],[0.2,0.5,0.9],np.array([0.0,1.0])][int(rng.integers(0,4))]
    tarr=np.atleast_1d(np.asarray(thr,float))
    cols=["g1","g2"] if multi else "g1"
    tot+=1
    try:
        r=showbias(df,cols,"y","s",metric,normalize=norm,pos_label=pl,score_class=sc,equal_class=ec,threshold=thr)
    except Exception as e:
        bad[("EXC",type(e).__name__,str(e)[:60])]+=1; continue
    if not df.equals(before): bad["mutated"]+=1
    keys=sorted(set(zip(g1,g2))) if multi else sorted(set(g1))
    got_idx=list(r.values.index)
    if got_idx!=keys: bad["index"]+=1; continue
    if not np.array_equal(np.asarray(r.values.columns,float),tarr): bad["columns"]+=1
    ref=np.empty((len(keys),len(tarr)))
    for i,k in enumerate(keys):
        m=(g1==k[0])&(g2==k[1]) if multi else (g1==k)
        for j,t in enumerate(tarr):
            ref[i,j]=getattr(ConfusionMatrix(matrix=refmat(lab[m].tolist(),sco[m].tolist(),t,sc,ec,pl),binary=True),metric)()
    ov=np.array([getattr(ConfusionMatrix(matrix=refmat(lab.tolist(),sco.tolist(),t,sc,ec,pl),binary=True),metric)() for t in tarr],float)
    with np.errstate(all="ignore"):
        if norm=="by_overall": ref=np.where(ov!=0,ref/np.where(ov==0,1,ov),ref)
        if norm=="by_min":
            mn=ref.min(axis=0); ref=np.where(mn!=0,ref/np.where(mn==0,1,mn),ref)
    if not np.allclose(r.values.to_numpy(float),ref,equal_nan=True,rtol=1e-12,atol=0): 
        bad[("value",norm)]+=1
        if bad[("value",norm)]<3: print(metric,norm,sc,ec,r.values.to_numpy().tolist(),ref.tolist())
print(tot,dict(bad))
