import warnings; warnings.filterwarnings("ignore")
import numpy as np, time
from score_analysis import Scores, BootstrapConfig, roc_with_ci, roc, showbias
import pandas as pd
rng=np.random.default_rng(0)
s=Scores(rng.normal(1,1,10),rng.normal(-1,1,10))
def tm(f,n=200):
    t=time.perf_counter()
    for _ in range(n): f()
    return (time.perf_counter()-t)/n*1e3
print("cm ms",tm(lambda:s.cm([0.1,0.2])))
print("thr ms",tm(lambda:s.threshold_at_fpr([0.1,0.2])))
print("eer ms",tm(lambda:s.eer(),50))
print("auc ms",tm(lambda:s.auc(0.2,0.7)))
print("sample ms",tm(lambda:s.bootstrap_sample(BootstrapConfig(sampling_method="replacement"))))
print("roc ms",tm(lambda:roc(s,nb_points=10)))
print("roc_with_ci(20 samples) ms",tm(lambda:roc_with_ci(s,nb_points=10,config=BootstrapConfig(nb_samples=20)),10))
df=pd.DataFrame({"g":list("aabbcc"),"label":[1,0,1,0,1,1],"score":[.1,.2,.3,.4,.5,.6]})
print("showbias ms",tm(lambda:showbias(df,"g","label","score","fnr",threshold=[.3]),50))
print("showbias boot20 ms",tm(lambda:showbias(df,"g","label","score","fnr",threshold=[.3],bootstrap_ci=True,bootstrap_config=BootstrapConfig(nb_samples=20,bootstrap_method="quantile")),10))
