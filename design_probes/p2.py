import warnings; warnings.filterwarnings("ignore")
import numpy as np, itertools
from score_analysis import Scores
# C03 probe: extremes exact for every N, all metrics, all configs, easy counts
metrics = ["tpr","fnr","tnr","fpr","topr","tonr"]
bad = {}
tot = 0
rng = np.random.default_rng(1)
for N in range(1, 40):
  for M in range(1, 12):
    for ep, en in [(0,0),(1,0),(0,2),(3,5),(7,1)]:
      pos = np.sort(rng.normal(size=N)); neg = np.sort(rng.normal(size=M))
      for sc, ec in itertools.product(["pos","neg"], repeat=2):
        s = Scores(pos, neg, nb_easy_pos=ep, nb_easy_neg=en, score_class=sc, equal_class=ec)
        # achievable min/max of each metric
        allt = np.concatenate([pos, neg, np.nextafter(np.concatenate([pos,neg]), np.inf), np.nextafter(np.concatenate([pos,neg]), -np.inf)])
        for m in metrics:
          vals = getattr(s, m)(allt)
          lo, hi = vals.min(), vals.max()
          for method in ["linear","lower","higher"]:
            for r, want in [(0.0, lo), (-0.3, lo), (1.0, hi), (1.7, hi)]:
              t = getattr(s, "threshold_at_"+m)(r, method=method)
              got = getattr(s, m)(t)
              tot += 1
              if got != want:
                bad.setdefault((m, sc, ec, method, r), []).append((N, M, ep, en, got, want))
print("total", tot, "bad kinds", len(bad))
for k, v in list(bad.items())[:40]:
    print(k, len(v), v[:3])
