import warnings; warnings.filterwarnings("ignore")
import numpy as np, itertools, collections
from score_analysis import Scores
metrics = ["tpr","fnr","tnr","fpr","topr","tonr"]
bad = collections.defaultdict(list); tot=collections.Counter()
rng = np.random.default_rng(1)
for N in range(1, 30):
  for M in range(1, 8):
    for ep, en in [(0,0),(1,0),(0,2),(3,5),(9,0),(0,9),(7,1), (13,29)]:
      pos = np.sort(rng.normal(size=N)); neg = np.sort(rng.normal(size=M))
      for sc, ec in itertools.product(["pos","neg"], repeat=2):
        s = Scores(pos, neg, nb_easy_pos=ep, nb_easy_neg=en, score_class=sc, equal_class=ec)
        a = np.concatenate([pos,neg])
        allt = np.concatenate([a, np.nextafter(a, np.inf), np.nextafter(a, -np.inf)])
        for m in metrics:
          vals = getattr(s, m)(allt); lo, hi = vals.min(), vals.max()
          n_rel = {"tpr":N,"fnr":N,"tnr":M,"fpr":M,"topr":N+M,"tonr":N+M}[m]
          for r, want, side in [(0.0, lo,'lo'), (-0.3, lo,'lo'), (1.0, hi,'hi'), (1.7, hi,'hi')]:
              t = getattr(s, "threshold_at_"+m)(r)
              got = getattr(s, m)(t)
              key=(m, sc, ec, side)
              tot[key]+=1
              if got != want:
                bad[key].append((N, M, ep, en, r, got, want, n_rel))
for k in sorted(tot):
    v = bad.get(k, [])
    n1 = sum(1 for x in v if x[7]==1)
    easy = sum(1 for x in v if (x[2] or x[3]))
    print(k, "fail %d/%d"%(len(v), tot[k]), "with n_rel==1:", n1, "with easy:", easy, v[:1] if v and len(v)<tot[k] else "")
