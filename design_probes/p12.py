import warnings; warnings.filterwarnings("ignore")
import numpy as np, itertools, collections
from score_analysis import Scores, BootstrapConfig
from score_analysis.experimental import fixed_width_band_ci
rng=np.random.default_rng(4)
res=collections.Counter()
for it in range(600):
    N=int(rng.integers(1,30)); M=int(rng.integers(1,30))
    mode=int(rng.integers(0,3))
    if mode==0: pos=rng.normal(1,1,N); neg=rng.normal(-1,1,M)
    elif mode==1: pos=rng.integers(0,4,N).astype(float); neg=rng.integers(0,4,M).astype(float)
    else: pos=rng.normal(3,1,N); neg=rng.normal(-3,1,M)
    sc=str(rng.choice(["pos","neg"])); ec=str(rng.choice(["pos","neg"]))
    s=Scores(pos,neg,score_class=sc,equal_class=ec)
    cfg=BootstrapConfig(nb_samples=10,sampling_method="replacement")
    nbp=[None,2,4,7,20,50][int(rng.integers(0,6))]
    np.random.seed(it)
    try:
        r=fixed_width_band_ci(s,nb_points=nbp,config=cfg); res[(nbp,sc,ec,"ok")]+=1
    except Exception as e:
        res[(nbp,sc,ec,"EXC")]+=1
for k in sorted(res,key=str): print(k,res[k])
