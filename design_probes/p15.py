import warnings; warnings.filterwarnings("ignore")
import numpy as np, math, collections
from statistics import NormalDist
from score_analysis.utils import bootstrap_ci
ND=NormalDist()
def ppf(p):
    if p<=0: return -math.inf
    if p>=1: return math.inf
    return ND.inv_cdf(p)
def cdf(z):
    if z==math.inf: return 1.0
    if z==-math.inf: return 0.0
    return ND.cdf(z)
def quant(vals,q):
    v=sorted(vals); n=len(v)
    h=(n-1)*q; lo=math.floor(h); hi=min(lo+1,n-1)
    return v[lo]+(h-lo)*(v[hi]-v[lo])
def ref(col,th,alpha,method):
    fin=[x for x in col if not math.isnan(x)]
    n=len(fin)
    if method=="quantile": return quant(fin,alpha/2),quant(fin,1-alpha/2), None
    p0=sum(1 for x in fin if x<=th)/n
    z0=ppf(p0); zl=ppf(alpha/2); zu=ppf(1-alpha/2)
    pole=None
    if method=="bc":
        l,u=2*z0+zl,2*z0+zu
    else:
        num=sum((x-th)**3 for x in fin); den=6*sum((x-th)**2 for x in fin)**1.5
        a=num/den if den!=0 else 0.0
        if math.isinf(z0): l=u=z0
        else:
            sl,su=z0+zl,z0+zu
            l=z0+sl/(1-a*sl); u=z0+su/(1-a*su)
            pole=max(abs(a*sl),abs(a*su))
    return quant(fin,cdf(l)),quant(fin,cdf(u)),pole
rng=np.random.default_rng(9)
worst=collections.defaultdict(float); cnt=collections.Counter()
for it in range(4000):
    N=int(rng.integers(1,40)); Y=int(rng.integers(1,4))
    kind=rng.integers(0,5)
    if kind==0: th=rng.normal(size=(N,Y))
    elif kind==1: th=rng.integers(0,4,size=(N,Y)).astype(float)
    elif kind==2: th=np.exp(rng.normal(size=(N,Y))*2)
    elif kind==3: th=np.full((N,Y),1.5)
    else: th=rng.normal(size=(N,Y)); th[rng.integers(0,N)]=1e6
    if rng.random()<0.4 and N>1:
        m=rng.random((N,Y))<0.2; m[0]=False; th=np.where(m,np.nan,th)
    that=rng.choice([0.0,1.0,1.5,-3,10.,float(np.nanmedian(th))],size=Y)+rng.choice([0,0,0.1])
    alpha=float(rng.choice([0.01,0.05,0.1,0.5,0.9,0.001]))
    for method in ["quantile","bc","bca"]:
        got=bootstrap_ci(th,that,alpha,method=method)
        assert got.shape==(Y,2)
        for j in range(Y):
            l,u,pole=ref(list(th[:,j]),float(that[j]),alpha,method)
            sc=max(1.0,np.nanmax(np.abs(th[:,j])))
            e=max(abs(got[j,0]-l),abs(got[j,1]-u))/sc
            worst[method]=max(worst[method],e); cnt[method]+=1
            if e>1e-9: 
                cnt[method+"_BAD"]+=1
                if cnt[method+"_BAD"]<4: print(method,N,alpha,that[j],got[j],l,u,pole,list(th[:,j]))
            if got[j,0]>got[j,1] and (pole is None or pole<1): cnt[method+"_ORDER"]+=1
print(dict(worst),dict(cnt))
