"""
Shared machinery: clause model, recorder, seeds, sharding, replay files, known findings,
evidence, verdicts.

A *clause* couples a generator of plain-JSON case dicts with a pure check function
``check(case) -> info`` that raises :class:`Violation` when the property is broken for
that case.  ``info`` is ``{"nontrivial": bool, "labels": [str, ...]}``.

Three kinds of clause:

* ``given``   - Hypothesis ``@given`` over a strategy of case dicts.
* ``enum``    - complete enumeration of a finite sub-domain (``cases(tier)`` yields dicts).
* ``machine`` - Hypothesis rule-based state machine; the machine records its history as a
                list of JSON steps, and the clause's ``check`` replays such a history
                with a plain interpreter (so a replay file bypasses Hypothesis).

Exit codes of a run: 0 held / 1 violation (with ``VIOLATION property=.. replay=..``) /
2 harness error.
"""

from __future__ import annotations

import hashlib
import json
import math
import os
import sys
import time
import traceback
import warnings
from collections import Counter
from dataclasses import dataclass, field
from typing import Any, Callable, Dict, Iterable, List, Optional

VERIF_DIR = os.path.dirname(os.path.dirname(os.path.abspath(__file__)))
REPO_DIR = os.path.abspath(os.environ.get("VERIF_REPO", "/repo"))


# ----------------------------------------------------------------------------------
# Import of the code under test: always the working tree, never the installed copy.
# ----------------------------------------------------------------------------------
def import_cut():
    """Puts VERIF_REPO first on sys.path and checks the import really comes from it."""
    sys.dont_write_bytecode = True
    loaded = sys.modules.get("score_analysis")
    if loaded is not None and os.path.abspath(getattr(loaded, "__file__", "") or "").startswith(REPO_DIR + os.sep):
        # already the working tree (a worker process runs several tasks): importing it a second time would
        # leave classes of the first import alive in helper caches (user subclasses), and isinstance checks
        # between the two generations fail - seen once in the thorough tier of C11
        return loaded
    if REPO_DIR in sys.path:
        sys.path.remove(REPO_DIR)
    sys.path.insert(0, REPO_DIR)
    for name in list(sys.modules):
        if name == "score_analysis" or name.startswith("score_analysis."):
            del sys.modules[name]
    warnings.filterwarnings("ignore")
    import score_analysis  # noqa

    f = os.path.abspath(score_analysis.__file__)
    if not f.startswith(REPO_DIR + os.sep):
        raise HarnessError(f"score_analysis imported from {f}, expected under {REPO_DIR}")
    return score_analysis


class HarnessError(Exception):
    """Something is wrong with the machinery itself (never a property violation)."""


class Violation(Exception):
    """The property is broken for the current case."""

    def __init__(self, sig: str, msg: str = ""):
        super().__init__(f"{sig}: {msg}")
        self.sig = sig
        self.msg = msg


def rt(x):
    """A run-time copy of an option string (as it would come from a config file or CLI): equal
    to the literal but not the same object, so identity comparisons in the code under test show."""
    return "".join(list(x)) if isinstance(x, str) else x


def require(cond, sig: str, msg: str = ""):
    if not cond:
        raise Violation(sig, msg() if callable(msg) else msg)


def classify_exception(exc: BaseException) -> Optional[str]:
    """
    An exception that escapes a check function is attributed to the innermost frame
    that belongs either to the code under test or to the harness.  Code under test ->
    signature of a violation ("the function raised on an input of the property's
    domain"); harness -> None (harness error).
    """
    tb = traceback.extract_tb(exc.__traceback__)
    for fr in reversed(tb):
        if not os.path.isabs(fr.filename):
            continue  # frames of compiled extensions ("numpy/random/mtrand.pyx"): neither side
        fn = os.path.abspath(fr.filename)
        if fn.startswith(REPO_DIR + os.sep):
            return f"exception:{type(exc).__name__}:{fr.name}"
        if fn.startswith(VERIF_DIR + os.sep):
            return None
    return None


# ----------------------------------------------------------------------------------
# JSON helpers
# ----------------------------------------------------------------------------------
def canon(obj) -> str:
    return json.dumps(obj, sort_keys=True, separators=(",", ":"), allow_nan=True)


def case_hash(clause: str, case) -> int:
    h = hashlib.blake2b((clause + "|" + canon(case)).encode(), digest_size=8).digest()
    return int.from_bytes(h, "big")


def sanitize(obj):
    """Strict-JSON rendering for evidence files (non-finite floats become strings)."""
    if isinstance(obj, float):
        if math.isnan(obj):
            return "nan"
        if math.isinf(obj):
            return "inf" if obj > 0 else "-inf"
        return obj
    if isinstance(obj, dict):
        return {str(k): sanitize(v) for k, v in obj.items()}
    if isinstance(obj, (list, tuple)):
        return [sanitize(v) for v in obj]
    return obj


def to_jsonable(obj):
    """numpy -> plain python (exact for floats)."""
    import numpy as np

    if isinstance(obj, np.ndarray):
        return obj.tolist()
    if isinstance(obj, np.generic):
        return obj.item()
    if isinstance(obj, dict):
        return {k: to_jsonable(v) for k, v in obj.items()}
    if isinstance(obj, (list, tuple)):
        return [to_jsonable(v) for v in obj]
    return obj


# ----------------------------------------------------------------------------------
# Clause model
# ----------------------------------------------------------------------------------
@dataclass
class Clause:
    name: str
    check: Callable[[dict], dict]
    kind: str = "given"  # given | enum | machine
    strategy: Any = None  # given: SearchStrategy of case dicts (or callable tier->strategy)
    cases: Optional[Callable[[str], Iterable[dict]]] = None  # enum
    machine: Any = None  # machine: callable(tier, on_history) -> RuleBasedStateMachine class
    quick: int = 300  # examples (quick tier, one shard)
    thorough: int = 1500  # examples per shard (thorough tier)
    shards: int = 16  # thorough shards
    quick_shards: int = 1
    min_nontrivial: int = 1  # vacuity guard (whole run, this clause)
    steps: int = 30  # machine: stateful_step_count
    fuzz: int = 0  # thorough tier: additionally drive strategy+oracle with atheris for this many runs
    doc: str = ""


@dataclass
class Prop:
    id: str
    rule: str
    clauses: List[Clause]
    assumptions: List[str] = field(default_factory=list)
    predicates: Dict[str, Callable[[dict], bool]] = field(default_factory=dict)


def derive_seed(seed: int, *parts) -> int:
    h = hashlib.blake2b(canon([seed, *parts]).encode(), digest_size=8).digest()
    return int.from_bytes(h, "big") % (2**63)


# ----------------------------------------------------------------------------------
# Known findings (read only)
# ----------------------------------------------------------------------------------
@dataclass
class Finding:
    prop: str
    clause: str
    sig: str
    pred: str
    repro: str
    text: str


def load_findings(path=None) -> List[Finding]:
    path = path or os.path.join(VERIF_DIR, "KNOWN_FINDINGS.txt")
    out = []
    if not os.path.exists(path):
        return out
    for line in open(path, encoding="utf-8"):
        line = line.strip()
        if not line.startswith("finding:"):
            continue
        head, _, text = line[len("finding:"):].partition("::")
        kv = dict(tok.split("=", 1) for tok in head.split())
        out.append(
            Finding(
                prop=kv["property"],
                clause=kv["clause"],
                sig=kv["sig"],
                pred=kv["pred"],
                repro=kv.get("repro", ""),
                text=text.strip(),
            )
        )
    return out


def match_finding(findings, prop: Prop, clause: str, sig: str, case) -> Optional[Finding]:
    for f in findings:
        if f.prop != prop.id or f.clause != clause:
            continue
        if not (sig == f.sig or (f.sig.endswith("*") and sig.startswith(f.sig[:-1]))):
            continue
        pred = prop.predicates.get(f.pred)
        if pred is None:
            raise HarnessError(f"known finding refers to unknown predicate {f.pred}")
        try:
            ok = bool(pred(case))
        except Exception:
            ok = False
        if ok:
            return f
    return None


# ----------------------------------------------------------------------------------
# Per-task recorder
# ----------------------------------------------------------------------------------
class Recorder:
    MAX_SAMPLES = 3

    def __init__(self):
        self.evaluations = 0
        self.nontrivial = set()
        self.labels = Counter()
        self.samples = []
        self.excluded_known = Counter()

    def record(self, clause: str, case, info):
        self.evaluations += 1
        info = info or {}
        for lab in info.get("labels", ()):
            self.labels[lab] += 1
        if info.get("nontrivial", False):
            self.nontrivial.add(case_hash(clause, case))
            if len(self.samples) < self.MAX_SAMPLES:
                self.samples.append(case)


def run_check(prop: Prop, clause: Clause, case, findings, rec: Optional[Recorder]):
    """
    Runs one case.  Returns None if held (or swallowed under a known finding);
    raises Violation otherwise.  Exceptions escaping from the code under test become
    violations, exceptions from the harness propagate as they are.
    """
    try:
        info = clause.check(case)
    except Violation as v:
        f = match_finding(findings, prop, clause.name, v.sig, case)
        if f is not None:
            if rec is not None:
                rec.evaluations += 1
                rec.excluded_known[f.pred] += 1
            return None
        raise
    except HarnessError:
        raise
    except Exception as e:  # noqa
        sig = classify_exception(e)
        if sig is None:
            raise
        v = Violation(sig, f"{type(e).__name__}: {e}")
        f = match_finding(findings, prop, clause.name, v.sig, case)
        if f is not None:
            if rec is not None:
                rec.evaluations += 1
                rec.excluded_known[f.pred] += 1
            return None
        raise v from e
    if rec is not None:
        rec.record(clause.name, case, info)
    return info


# ----------------------------------------------------------------------------------
# One task = (clause, shard); runs inside a worker process
# ----------------------------------------------------------------------------------
def _hyp_settings(n, steps=None, shrink=True):
    from hypothesis import HealthCheck, Phase, settings

    kw = dict(
        max_examples=n,
        database=None,
        deadline=None,
        derandomize=False,
        report_multiple_bugs=False,
        print_blob=False,
        suppress_health_check=[HealthCheck.too_slow, HealthCheck.data_too_large,
                               HealthCheck.filter_too_much, HealthCheck.large_base_example],
        phases=[Phase.generate, Phase.shrink] if shrink else [Phase.generate],
    )
    if steps is not None:
        kw["stateful_step_count"] = steps
    return settings(**kw)


def run_task(prop_id: str, clause_name: str, tier: str, seed: int, shard: int, nshards: int):
    """Returns a plain dict (picklable) with the task's statistics."""
    t0 = time.time()
    import_cut()
    from . import props

    prop = props.load(prop_id)
    clause = next(c for c in prop.clauses if c.name == clause_name)
    findings = load_findings()
    rec = Recorder()
    out = dict(clause=clause_name, shard=shard, violation=None, error=None)
    state = {}

    try:
        if clause.kind == "enum":
            for i, case in enumerate(clause.cases(tier)):
                if i % nshards != shard:
                    continue
                try:
                    run_check(prop, clause, case, findings, rec)
                except Violation as v:
                    out["violation"] = dict(case=case, sig=v.sig, msg=v.msg)
                    break
        elif clause.kind == "given":
            import hypothesis
            from hypothesis import given

            n = clause.quick if tier == "quick" else clause.thorough
            strat = clause.strategy(tier) if callable(clause.strategy) else clause.strategy
            hseed = derive_seed(seed, prop_id, clause_name, shard)

            @_hyp_settings(n)
            @hypothesis.seed(hseed)
            @given(strat)
            def test(case):
                try:
                    run_check(prop, clause, case, findings, rec)
                except Violation as v:
                    state["v"] = dict(case=case, sig=v.sig, msg=v.msg)
                    raise

            try:
                test()
            except Violation:
                out["violation"] = state["v"]
        elif clause.kind == "machine":
            import hypothesis
            from hypothesis.stateful import run_state_machine_as_test

            n = clause.quick if tier == "quick" else clause.thorough
            hseed = derive_seed(seed, prop_id, clause_name, shard)

            def on_history(history):
                # called by the machine's teardown with the executed history
                try:
                    run_check(prop, clause, history, findings, rec)
                except Violation as v:
                    state["v"] = dict(case=history, sig=v.sig, msg=v.msg)
                    raise

            M = clause.machine(tier, on_history)
            try:
                run_state_machine_as_test(
                    hypothesis.seed(hseed)(M), settings=_hyp_settings(n, steps=clause.steps)
                )
            except Violation:
                out["violation"] = state["v"]
        else:
            raise HarnessError(f"unknown clause kind {clause.kind}")
    except Violation as v:  # pragma: no cover - should have been caught above
        out["violation"] = dict(case=None, sig=v.sig, msg=v.msg)
    except BaseException as e:  # harness error (incl. Hypothesis health checks)
        out["error"] = "".join(traceback.format_exception(type(e), e, e.__traceback__))[-4000:]

    out.update(
        evaluations=rec.evaluations,
        nontrivial=rec.nontrivial,
        labels=dict(rec.labels),
        samples=rec.samples,
        excluded_known=dict(rec.excluded_known),
        wall_s=time.time() - t0,
    )
    return out


# ----------------------------------------------------------------------------------
# Replay / corpus
# ----------------------------------------------------------------------------------
def load_case_file(path):
    with open(path, encoding="utf-8") as fh:
        d = json.load(fh)
    if "clause" not in d or "case" not in d:
        raise HarnessError(f"{path}: not a replay/corpus file")
    return d


def write_replay(prop_id, clause, viol) -> str:
    d = os.path.join(VERIF_DIR, os.environ.get("VERIF_REPLAY_DIR", "replays"), prop_id)
    os.makedirs(d, exist_ok=True)
    h = hashlib.blake2b(canon([clause, viol["case"]]).encode(), digest_size=6).hexdigest()
    path = os.path.join(d, f"{clause}-{h}.json")
    with open(path, "w", encoding="utf-8") as fh:
        json.dump(
            dict(property=prop_id, clause=clause, signature=viol["sig"], message=viol["msg"],
                 case=viol["case"]),
            fh, indent=1, allow_nan=True,
        )
    return os.path.relpath(path, VERIF_DIR)


def corpus_files(prop_id) -> List[str]:
    d = os.path.join(VERIF_DIR, "corpus", prop_id)
    if not os.path.isdir(d):
        return []
    return sorted(os.path.join(d, f) for f in os.listdir(d) if f.endswith(".json"))
