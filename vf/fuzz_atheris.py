"""
Second engine (thorough tier only): coverage-guided fuzzing with atheris/libFuzzer driving the
*same* Hypothesis strategy and the *same* oracle as the clause (the oracle is inside the fuzz
target).  Used where the code under test has Python-level branching that coverage can see.

    python -m vf.fuzz_atheris CNN clause_name --runs N --seed S --stats FILE

Exit 0: budget used, property held.  Exit 77: violation (replay file written, path in the stats
file).  Exit 3: atheris not available (stage skipped, inconclusive).  Anything else: harness error.
"""

from __future__ import annotations

import argparse
import json
import os
import subprocess
import sys
import tempfile
import time

from . import harness as H

DEPS = os.path.join(H.VERIF_DIR, ".deps")


def ensure_atheris() -> bool:
    if DEPS not in sys.path:
        sys.path.insert(0, DEPS)
    try:
        import atheris  # noqa

        return True
    except Exception:
        pass
    os.makedirs(DEPS, exist_ok=True)
    subprocess.run([sys.executable, "-m", "pip", "install", "-q", "--no-index", "--find-links",
                    "/opt/veriftools/wheels", "--target", DEPS, "atheris"],
                   stdout=subprocess.DEVNULL, stderr=subprocess.DEVNULL)
    try:
        import importlib

        importlib.invalidate_caches()
        import atheris  # noqa

        return True
    except Exception:
        return False


def main(argv=None):
    ap = argparse.ArgumentParser()
    ap.add_argument("prop")
    ap.add_argument("clause")
    ap.add_argument("--runs", type=int, default=20000)
    ap.add_argument("--seed", type=int, default=0)
    ap.add_argument("--stats", required=True)
    ap.add_argument("--max-seconds", type=int, default=120)
    a = ap.parse_args(argv)
    if not ensure_atheris():
        json.dump(dict(skipped="atheris not importable"), open(a.stats, "w"))
        return 3
    import atheris

    sys.dont_write_bytecode = True
    if H.REPO_DIR in sys.path:
        sys.path.remove(H.REPO_DIR)
    sys.path.insert(0, H.REPO_DIR)
    import warnings

    warnings.filterwarnings("ignore")
    with atheris.instrument_imports(include=["score_analysis"]):
        import score_analysis
    if not os.path.abspath(score_analysis.__file__).startswith(H.REPO_DIR + os.sep):
        print("HARNESS-ERROR score_analysis not imported from", H.REPO_DIR)
        return 2
    from hypothesis import given

    from . import props

    prop = props.load(a.prop)
    clause = next(c for c in prop.clauses if c.name == a.clause)
    findings = H.load_findings()
    rec = H.Recorder()
    strat = clause.strategy("thorough") if callable(clause.strategy) else clause.strategy
    t0 = time.time()
    state = dict(n=0)

    def dump(extra=None):
        d = dict(executions=rec.evaluations, distinct_nontrivial=len(rec.nontrivial),
                 labels=dict(rec.labels), wall_s=round(time.time() - t0, 1),
                 samples=H.sanitize(rec.samples[:2]), excluded_known=dict(rec.excluded_known))
        d.update(extra or {})
        with open(a.stats, "w") as fh:
            json.dump(d, fh)

    @H._hyp_settings(1, shrink=False)
    @given(strat)
    def test(case):
        state["n"] += 1
        try:
            H.run_check(prop, clause, case, findings, rec)
        except H.Violation as v:
            path = H.write_replay(prop.id, clause.name, dict(case=case, sig=v.sig, msg=v.msg))
            dump(dict(violation=dict(sig=v.sig, msg=v.msg[:1000], replay=path)))
            os._exit(77)
        if state["n"] % 100 == 0:
            dump()
            if time.time() - t0 > a.max_seconds:
                dump(dict(stopped="time budget (inconclusive beyond this point)"))
                os._exit(0)

    corpus = tempfile.mkdtemp(prefix="vf_fuzz_", dir=os.path.join(H.VERIF_DIR, ".deps"))
    args = [sys.argv[0], f"-runs={a.runs}", f"-seed={max(1, a.seed % (2**31))}", "-max_len=8192",
            "-timeout=120", "-print_final_stats=0", "-verbosity=0", corpus]
    try:
        atheris.Setup(args, test.hypothesis.fuzz_one_input)
        dump()
        atheris.Fuzz()
    finally:
        dump()
    return 0


if __name__ == "__main__":
    rc = main()
    sys.stdout.flush()
    os._exit(rc if isinstance(rc, int) else 0)
