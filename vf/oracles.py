"""
Reference models that are independent of the implementation: counting with Python
comparison operators, exact rationals, stdlib normal distribution.
"""

from __future__ import annotations

import math
import operator
from fractions import Fraction
from statistics import NormalDist

CONFIGS = [("pos", "pos"), ("pos", "neg"), ("neg", "pos"), ("neg", "neg")]

# README decision table: a sample is predicted positive iff  score <op> threshold
_OPS = {
    ("pos", "pos"): operator.ge,
    ("pos", "neg"): operator.gt,
    ("neg", "pos"): operator.le,
    ("neg", "neg"): operator.lt,
}

METRICS = ["tpr", "fnr", "tnr", "fpr", "topr", "tonr"]
ALIASES = {"tpr": "tar", "fnr": "frr", "tnr": "trr", "fpr": "far",
           "topr": "acceptance_rate", "tonr": "rejection_rate"}


def predicted_positive(score, t, sc, ec) -> bool:
    return bool(_OPS[(sc, ec)](score, t))


def ref_cm(pos, neg, t, sc, ec, ep=0, en=0):
    """(tp, fn, fp, tn) by counting; no sorting, no searchsorted."""
    op = _OPS[(sc, ec)]
    tp = 0
    for x in pos:
        if op(x, t):
            tp += 1
    fp = 0
    for x in neg:
        if op(x, t):
            fp += 1
    return tp + ep, len(pos) - tp, fp, len(neg) - fp + en


def rate(metric, cm):
    """Float rate from integer counts (NaN iff denominator is 0)."""
    tp, fn, fp, tn = cm
    num, den = {
        "tpr": (tp, tp + fn),
        "fnr": (fn, tp + fn),
        "tnr": (tn, fp + tn),
        "fpr": (fp, fp + tn),
        "topr": (tp + fp, tp + fn + fp + tn),
        "tonr": (fn + tn, tp + fn + fp + tn),
    }[metric]
    return num / den if den != 0 else math.nan


def rate_frac(metric, cm):
    tp, fn, fp, tn = cm
    num, den = {
        "tpr": (tp, tp + fn),
        "fnr": (fn, tp + fn),
        "tnr": (tn, fp + tn),
        "fpr": (fp, fp + tn),
        "topr": (tp + fp, tp + fn + fp + tn),
        "tonr": (fn + tn, tp + fn + fp + tn),
    }[metric]
    return Fraction(num, den) if den != 0 else None


def population(metric, n_pos, n_neg, ep, en):
    """Relevant population (easy samples included) of a rate."""
    return {
        "tpr": n_pos + ep, "fnr": n_pos + ep,
        "tnr": n_neg + en, "fpr": n_neg + en,
        "topr": n_pos + n_neg + ep + en, "tonr": n_pos + n_neg + ep + en,
    }[metric]


def achievable_range(metric, n_pos, n_neg, ep, en):
    """(lowest, highest) achievable value as Fractions (closed-form)."""
    P, Nn = n_pos + ep, n_neg + en
    T = P + Nn
    return {
        "tpr": (Fraction(ep, P), Fraction(1)) if P else None,
        "fnr": (Fraction(0), Fraction(n_pos, P)) if P else None,
        "tnr": (Fraction(en, Nn), Fraction(1)) if Nn else None,
        "fpr": (Fraction(0), Fraction(n_neg, Nn)) if Nn else None,
        "topr": (Fraction(ep, T), Fraction(ep + n_pos + n_neg, T)) if T else None,
        "tonr": (Fraction(en, T), Fraction(en + n_pos + n_neg, T)) if T else None,
    }[metric]


def relevant_scores(metric, pos, neg):
    if metric in ("tpr", "fnr"):
        return list(pos)
    if metric in ("tnr", "fpr"):
        return list(neg)
    return list(pos) + list(neg)


def ulp_step(x: float, k: int) -> float:
    """x moved by k ulps (k may be negative)."""
    d = math.inf if k > 0 else -math.inf
    for _ in range(abs(k)):
        x = math.nextafter(x, d)
    return x


_ND = NormalDist()


def norm_ppf(p: float) -> float:
    if p <= 0:
        return -math.inf
    if p >= 1:
        return math.inf
    return _ND.inv_cdf(p)


def norm_cdf(z: float) -> float:
    if z == math.inf:
        return 1.0
    if z == -math.inf:
        return 0.0
    return 0.5 * math.erfc(-z / math.sqrt(2.0))


def quantile_linear(sorted_vals, q: float) -> float:
    """NumPy's default ('linear') quantile on sorted finite values."""
    n = len(sorted_vals)
    if n == 0:
        return math.nan
    h = (n - 1) * q
    lo = math.floor(h)
    hi = min(lo + 1, n - 1)
    lo = max(min(lo, n - 1), 0)
    g = h - lo
    a, b = sorted_vals[lo], sorted_vals[hi]
    # numpy's _lerp
    d = b - a
    r = a + d * g
    if g >= 0.5:
        r = b - d * (1 - g)
    if d == 0:
        r = a
    return r


def mann_whitney(pos, neg, sc, ep=0, en=0) -> Fraction:
    """P(random positive ranked on the positive side of random negative) + 1/2 P(tie)."""
    n, m = len(pos), len(neg)
    P, Nn = n + ep, m + en
    better = ties = 0
    for x in pos:
        for y in neg:
            if x == y:
                ties += 1
            elif (x > y) == (sc == "pos"):
                better += 1
    num = Fraction(better) + Fraction(ties, 2) + ep * Nn + n * en
    return num / (P * Nn)
