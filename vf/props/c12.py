"""C12 - group labels stay attached to their scores; groups partition the data."""

from __future__ import annotations

from collections import Counter

import numpy as np
from hypothesis import strategies as st
from hypothesis.stateful import RuleBasedStateMachine, initialize, rule

from .. import gen
from ..harness import Clause, Prop, require, rt
from ..oracles import ALIASES, CONFIGS, METRICS, rate, ref_cm

STR_NAMES = ["a", "b", "c_d", "_", "é", "group 1", "x_y_z", "B"]
INT_NAMES = [0, 1, 2, 5, -3]
BIG_NAMES = [2**53 + 1, 2**53 + 2, 2**53 + 3, 2**53 + 5, 2**60, -(2**53) - 1]  # 64-bit ids


@st.composite
def _group_sets(draw, distinct=None, max_size=10, min_each=0):
    kind = draw(st.sampled_from(["str", "str", "int", "bigint"]))
    pool = STR_NAMES if kind == "str" else INT_NAMES if kind == "int" else BIG_NAMES
    G = draw(st.integers(1, 5))
    names = draw(st.lists(st.sampled_from(pool), min_size=G, max_size=G, unique=True))
    if distinct is None:
        distinct = draw(st.booleans())
    s = draw(gen.score_sets(min_pos=min_each, min_neg=min_each, max_size=max_size,
                            modes=("distinct",) if distinct else ("grid", "grid", "dyadic", "int", "uint"),
                            easy=False))
    idx = st.integers(0, G - 1)
    pg = draw(st.lists(idx, min_size=len(s["pos"]), max_size=len(s["pos"])))
    ng = draw(st.lists(idx, min_size=len(s["neg"]), max_size=len(s["neg"])))
    sc, ec = draw(gen.CONFIG)
    # explicitly provided group names ("used as is and not sorted"), possibly naming a group
    # without members
    given = None
    if draw(st.integers(0, 2)) == 0:
        used = sorted(set(pg) | set(ng))
        extra = [i for i in range(G) if i not in used][:1] if draw(st.booleans()) else []
        given = list(draw(st.permutations(used + extra)))
    return dict(kind=kind, names=names, pos=s["pos"], neg=s["neg"], pg=pg, ng=ng, sc=sc, ec=ec,
                mode=s["mode"], distinct=distinct, given_names=given,
                # how the caller holds the labels, whether an absent class is passed as [] and
                # whether the caller sorts the scores itself (is_sorted=True)
                labels_as=draw(st.sampled_from(["array", "array", "list", "series"])),
                flag_kind=draw(st.sampled_from(["py", "py", "np", "int"])),
                empty_as_list=draw(st.booleans()), sorted_input=draw(st.sampled_from([False, False, True])))


def _labels(d, which):
    vals = [d["names"][i] for i in d[which]]
    return np.asarray(vals, dtype=str if d["kind"] == "str" else int)


def _make(d, via="ctor", is_sorted=False):
    from score_analysis import GroupScores

    dt = {"int": int, "uint": np.uint8}.get(d["mode"], float)
    pos, neg = np.asarray(d["pos"], dtype=dt), np.asarray(d["neg"], dtype=dt)
    pg, ng = _labels(d, "pg"), _labels(d, "ng")
    kw = {}
    if d.get("given_names") is not None and via != "labels":
        kw["group_names"] = np.asarray([d["names"][i] for i in d["given_names"]],
                                       dtype=str if d["kind"] == "str" else int)
    if via == "labels":
        labels = np.concatenate([np.ones(len(pos), dtype=int), np.zeros(len(neg), dtype=int)])
        scores = np.concatenate([pos, neg])
        groups = np.concatenate([pg, ng]) if len(pg) + len(ng) else pg
        perm = np.argsort(np.cos(np.arange(len(scores)) * 7.77), kind="stable")
        return GroupScores.from_labels(labels[perm], scores[perm], groups[perm], pos_label=1,
                                       score_class=d["sc"], equal_class=d["ec"])
    is_sorted = bool(is_sorted or d.get("sorted_input"))
    if is_sorted:
        ip, ineg = np.argsort(pos, kind="stable"), np.argsort(neg, kind="stable")
        pos, neg, pg, ng = pos[ip], neg[ineg], pg[ip], ng[ineg]
    held = d.get("labels_as", "array")
    if held == "list":
        pg, ng = pg.tolist(), ng.tolist()
    elif held == "series":  # a column of a frame whose index labels are not the positions
        import pandas as pd

        pg = pd.Series(pg, index=list(range(len(pg)))[::-1])
        ng = pd.Series(ng, index=list(range(len(ng)))[::-1])
    if d.get("empty_as_list"):
        if len(pos) == 0:
            pos, pg = [], []
        if len(neg) == 0:
            neg, ng = [], []
    # the flag as a literal, as the result of a NumPy test (np.all(np.diff(x) >= 0)), as 0 / 1
    flag = {"py": bool(is_sorted), "np": np.bool_(is_sorted), "int": int(is_sorted)}[d.get("flag_kind", "py")]
    return GroupScores(pos, neg, pos_groups=pg, neg_groups=ng, score_class=d["sc"],
                       equal_class=d["ec"], is_sorted=flag, **kw)


def _py(x):
    return x.item() if hasattr(x, "item") else x


def triples(g):
    t = Counter()
    # (whatever container the object keeps its labels in)
    for s, lab in zip(np.asarray(g.pos).tolist(), np.asarray(g.pos_groups).tolist()):
        t[(float(s), _norm(lab), "pos")] += 1
    for s, lab in zip(np.asarray(g.neg).tolist(), np.asarray(g.neg_groups).tolist()):
        t[(float(s), _norm(lab), "neg")] += 1
    return t


def _norm(lab):
    """Labels are compared by value: 0 == 0.0, 'a' == np.str_('a')."""
    if isinstance(lab, bool):
        return str(lab)
    if isinstance(lab, int):
        return lab  # exact, also beyond 2^53
    if isinstance(lab, float):
        return int(lab) if lab.is_integer() else lab
    return str(lab)


def input_triples(d, swap=False):
    t = Counter()
    for s, i in zip(d["pos"], d["pg"]):
        t[(float(s), _norm(d["names"][i]), "neg" if swap else "pos")] += 1
    for s, i in zip(d["neg"], d["ng"]):
        t[(float(s), _norm(d["names"][i]), "pos" if swap else "neg")] += 1
    return t


def present_names(d):
    if d.get("given_names") is not None and d.get("_via", "ctor") != "labels":
        return [d["names"][i] for i in d["given_names"]]
    used = sorted(set(d["pg"]) | set(d["ng"]))
    return sorted((d["names"][i] for i in used))


def check_object(g, d, thr, ctx, swapped=False):
    """All structural claims about one GroupScores object built from input d."""
    from score_analysis import Scores, groupwise

    require(triples(g) == input_triples(d, swapped), "grp:triples",
            lambda: f"{ctx}: (score, group, class) multiset changed: {sorted(triples(g).items())} vs "
                    f"{sorted(input_triples(d, swapped).items())}")
    require(g.pos.tolist() == sorted(g.pos.tolist()) and g.neg.tolist() == sorted(g.neg.tolist()),
            "grp:not-sorted", ctx)
    names = present_names(d)
    require([_norm(x) for x in g.groups.tolist()] == [_norm(x) for x in names], "grp:names",
            f"{ctx}: groups {g.groups.tolist()} expected {names}")
    # the configuration the object was asked to have (d is already the class-swapped record for swap())
    sc, ec = d["sc"], d["ec"]
    require(g.score_class.value == sc and g.equal_class.value == ec, "grp:flags",
            f"{ctx}: object has {g.score_class.value}/{g.equal_class.value}, requested {sc}/{ec}")
    P = "neg" if swapped else "pos"
    total = np.zeros(thr.shape + (2, 2), dtype=int)
    gcm = g.group_cm(thr).matrix
    require(gcm.shape == (len(names),) + thr.shape + (2, 2), "grp:group-cm-shape", f"{ctx}: {gcm.shape}")
    per_group = []
    for gi, name in enumerate(names):
        fp_ = [float(s) for s, i in zip(d[P], d["pg" if P == "pos" else "ng"]) if d["names"][i] == name]
        fn_ = [float(s) for s, i in zip(d["neg" if P == "pos" else "pos"],
                                        d["ng" if P == "pos" else "pg"]) if d["names"][i] == name]
        sub = g[name]
        require(sorted(sub.pos.tolist()) == sorted(fp_) and sorted(sub.neg.tolist()) == sorted(fn_),
                "grp:getitem", lambda: f"{ctx}: group {name!r}: pos {sub.pos.tolist()} neg "
                                       f"{sub.neg.tolist()} expected {sorted(fp_)} / {sorted(fn_)}")
        require(sub.score_class.value == sc and sub.equal_class.value == ec, "grp:getitem-flags", ctx)
        exp = np.zeros(thr.shape + (2, 2), dtype=int)
        for idx in np.ndindex(*thr.shape):
            tp, fn, fp, tn = ref_cm(fp_, fn_, float(thr[idx]), sc, ec)
            exp[idx] = [[tp, fn], [fp, tn]]
        require(np.array_equal(gcm[gi], exp), "grp:group-cm",
                lambda: f"{ctx}: group {name!r} at {thr.tolist()}: {gcm[gi].tolist()} vs {exp.tolist()}")
        total += exp
        per_group.append(exp)
    require(np.array_equal(g.cm(thr).matrix, total), "grp:partition-sum",
            lambda: f"{ctx}: sum over groups {total.tolist()} vs overall {g.cm(thr).matrix.tolist()}")
    if thr.size and names:
        for m in METRICS:
            exp = np.asarray([[rate(m, tuple(int(x) for x in pg_[idx].reshape(-1)))
                               for idx in np.ndindex(*thr.shape)] for pg_ in per_group]
                             ).reshape((len(names),) + thr.shape)
            got = np.asarray(getattr(g, "group_" + m)(thr))
            require(got.shape == exp.shape and np.array_equal(got, exp, equal_nan=True),
                    "grp:group-rate", lambda: f"{ctx}: group_{m}: {got.tolist()} vs {exp.tolist()}")
            al = np.asarray(getattr(g, "group_" + ALIASES[m])(thr))
            require(np.array_equal(al, got, equal_nan=True), "grp:group-alias", f"{ctx}: {m}")
            gw = np.asarray(groupwise(m)(g, threshold=thr))
            require(np.array_equal(gw, exp, equal_nan=True), "grp:groupwise",
                    lambda: f"{ctx}: groupwise({m!r}): {gw.tolist()} vs {exp.tolist()}")
        # callable metric with kwargs
        gw = np.asarray(groupwise(lambda s_, threshold, k: k * s_.cm(threshold).tp())(g, threshold=thr, k=3))
        exp = np.asarray([3 * pg_[..., 0, 0] for pg_ in per_group])
        require(np.array_equal(gw, exp), "grp:groupwise-callable", f"{ctx}")
        # a metric whose result is integer-valued for some groups and fractional for others (a cell count
        # with the usual 0.5 continuity correction where it is empty)
        for ci, cell in enumerate(("tp", "fn", "fp", "tn")):
            def corrected(s_, threshold, cell=cell):
                c = getattr(s_.cm(threshold), cell)()
                return c if np.all(c > 0) else c + 0.5

            gw = np.asarray(groupwise(corrected)(g, threshold=thr), dtype=float)
            cells = [pg_[..., ci // 2, ci % 2] for pg_ in per_group]
            exp = np.asarray([c if np.all(c > 0) else c + 0.5 for c in cells], dtype=float)
            require(gw.shape == exp.shape and np.array_equal(gw, exp), "grp:groupwise-callable",
                    lambda: f"{ctx}: corrected {cell} count per group: {gw.tolist()} vs {exp.tolist()}")


# ---------------------------------------------------------------------- clause: structure
@st.composite
def _struct_cases(draw):
    d = draw(_group_sets())
    thr = draw(gen.shaped_thresholds(d["pos"] + d["neg"], shapes=[(), (2,), (3,), (2, 2), (2, 3), (0,)], mag=1e6))
    return dict(d=d, thr=thr, via=draw(st.sampled_from(["ctor", "ctor", "labels", "sorted"])),
                thr_layout=draw(st.sampled_from(["C", "F", "T"])))


def check_structure(case):
    d = case["d"]
    if not d["pos"] and not d["neg"]:
        return dict(nontrivial=False, labels=["empty"])
    thr = gen.np_array(case["thr"]["flat"], tuple(case["thr"]["shape"]))
    if thr.ndim >= 2 and case.get("thr_layout", "C") != "C":
        thr = np.asfortranarray(thr) if case["thr_layout"] == "F" else np.ascontiguousarray(thr.T).T
    d = dict(d, _via=case["via"])
    g = _make(d, via="labels" if case["via"] == "labels" else "ctor", is_sorted=case["via"] == "sorted")
    check_object(g, d, thr, f"via={case['via']} config={d['sc']}/{d['ec']}")
    d = dict(d, given_names=None)  # swap() and the objects built below do not pass group_names
    if case["via"] == "ctor":
        # the caller's arrays stay as they were, so a second object over the same arrays (e.g. with
        # another grouping variable) sees the same (score, group) pairs
        from score_analysis import GroupScores

        dt = {"int": int, "uint": np.uint8}.get(d["mode"], float)
        pos, neg = np.asarray(d["pos"], dtype=dt), np.asarray(d["neg"], dtype=dt)
        pg, ng = _labels(d, "pg"), _labels(d, "ng")
        g1 = GroupScores(pos, neg, pos_groups=pg, neg_groups=ng, score_class=d["sc"], equal_class=d["ec"])
        g2 = GroupScores(pos, neg, pos_groups=pg, neg_groups=ng, score_class=d["sc"], equal_class=d["ec"])
        check_object(g2, d, thr, "second object over the same caller arrays")
        require(triples(g1) == triples(g2), "grp:triples", "first and second object over the same arrays differ")
        require(bool(g1 == g2) and bool(g1.swap().swap() == g1), "grp:equality",
                "two objects over the same arrays (or an object and its double swap) compare unequal")
    sw = g.swap()
    d_sw = dict(d, sc="neg" if d["sc"] == "pos" else "pos", ec="neg" if d["ec"] == "pos" else "pos")
    check_object(sw, d_sw, thr, f"swap() of via={case['via']}", swapped=True)
    names = present_names(d)
    lacking = any((n not in [d["names"][i] for i in d["pg"]]) or (n not in [d["names"][i] for i in d["ng"]])
                  for n in names)
    shared = False
    seen = {}
    for s, i in list(zip(d["pos"], d["pg"])) + list(zip(d["neg"], d["ng"])):
        if float(s) in seen and seen[float(s)] != i:
            shared = True
        seen[float(s)] = i
    unsorted = d["pos"] != sorted(d["pos"]) or d["neg"] != sorted(d["neg"])
    labels = [f"G:{len(names)}", f"kind:{d['kind']}"] + (["group-lacks-class"] if lacking else [])
    return dict(nontrivial=len(names) >= 2 and unsorted and (lacking or shared), labels=labels)


# ---------------------------------------------------------------------- clause: sampling
SAMPLINGS = [("replacement", None), ("replacement", "by_label"), ("replacement", "by_group"),
             ("single_pass", None), ("single_pass", "by_label"), ("single_pass", "by_group"),
             ("dynamic", None), ("dynamic", "by_label"), ("dynamic", "by_group")]


def sampling_ok(d, method, strat, names=None):
    """single_pass needs every sampled (group, class) stratum non-empty; by_group iterates over
    the *listed* groups, which after an earlier sampling step may include a group without
    members."""
    if not d["pos"] or not d["neg"]:
        return False
    if method == "single_pass" and strat == "by_group":
        if names is not None and (set(names) != set(d["pg"]) or set(names) != set(d["ng"])):
            return False
        return set(d["pg"]) == set(d["ng"])
    return True


@st.composite
def _big_group_sets(draw):
    """90-130 scores per class (either side of the dynamic single-pass switch at 100), 2-3 groups,
    every group present in both classes."""
    n, m = draw(st.integers(90, 130)), draw(st.integers(90, 130))
    G = draw(st.sampled_from([1, 1, 2, 3]))  # a single group is a group, too
    names = ["a", "b", "c_d"][:G]
    seed = draw(st.integers(0, 10**6))
    rs = np.random.RandomState(seed)
    vals = (rs.permutation(n + m) * 0.5 - 40).tolist()
    pg = rs.randint(0, G, size=n).tolist()
    ng = rs.randint(0, G, size=m).tolist()
    pg[:G], ng[:G] = list(range(G)), list(range(G))
    sc, ec = draw(gen.CONFIG)
    return dict(kind="str", names=names, pos=vals[:n], neg=vals[n:], pg=pg, ng=ng, sc=sc, ec=ec,
                mode="distinct", distinct=True)


@st.composite
def _sample_cases(draw):
    if draw(st.integers(0, 5)) == 0:
        d = draw(_big_group_sets())
    else:
        d = draw(_group_sets(distinct=True, min_each=1, max_size=9))
    method, strat = draw(st.sampled_from(SAMPLINGS))
    # the documented run-time setting of the dynamic switch (None: the shipped value, 100)
    switch = draw(st.sampled_from([None, None, 5, 110, 1000])) if method == "dynamic" else None
    return dict(d=d, method=method, strat=strat, seed=draw(gen.RNG_SEED), reps=draw(st.integers(1, 4)), switch=switch)


def check_one_sample(src_obj, src_triples, src_names, b, method, strat, ctx, group_counts=None, switch=100):
    from score_analysis import GroupScores

    require(isinstance(b, GroupScores), "grp:sample-type", f"{ctx}: {type(b).__name__}")
    tb = triples(b)
    missing = [k for k in tb if k not in src_triples]
    require(not missing, "grp:sample-triple-not-in-source",
            lambda: f"{ctx}: sampled (score, group, class) {missing[:3]} do not occur in the source")
    require(b.pos.tolist() == sorted(b.pos.tolist()) and b.neg.tolist() == sorted(b.neg.tolist()),
            "grp:sample-not-sorted", ctx)
    require(len(b.pos) == len(b.pos_groups) and len(b.neg) == len(b.neg_groups), "grp:sample-lengths", ctx)
    require([_norm(x) for x in b.groups.tolist()] == [_norm(x) for x in src_names], "grp:sample-names",
            f"{ctx}: groups {b.groups.tolist()} vs source {src_names}")
    require(b.score_class == src_obj.score_class and b.equal_class == src_obj.equal_class,
            "grp:sample-flags", ctx)
    resolved = method
    if method == "dynamic":
        npos, nneg = len(src_obj.pos), len(src_obj.neg)
        if npos == switch or nneg == switch:
            resolved = None  # the docs say both ">100" and "at least 100"
        elif strat == "by_group" or npos < switch or nneg < switch:
            resolved = "replacement"
        else:
            resolved = "single_pass"
    if resolved == "replacement":
        require(len(b.pos) + len(b.neg) == len(src_obj.pos) + len(src_obj.neg), "grp:sample-total",
                f"{ctx}: {len(b.pos) + len(b.neg)} vs {len(src_obj.pos) + len(src_obj.neg)}")
        if strat == "by_label":
            require(len(b.pos) == len(src_obj.pos) and len(b.neg) == len(src_obj.neg),
                    "grp:sample-strata", ctx)
        if strat == "by_group":
            got = Counter()
            for (s_, lab, cl), c in tb.items():
                got[lab] += c
            require(got == group_counts, "grp:sample-group-counts",
                    f"{ctx}: per-group counts {dict(got)} vs source {dict(group_counts)}")
    # per-group confusion matrices of the sample still sum to the overall one
    thr = np.asarray(sorted(set(b.pos.tolist() + b.neg.tolist()))[:4] + [0.0])
    require(np.array_equal(b.group_cm(thr).matrix.sum(axis=0), b.cm(thr).matrix), "grp:sample-partition", ctx)


def check_sampling(case):
    import score_analysis.scores as sa_scores

    shipped = sa_scores.SINGLE_PASS_SAMPLE_THRESHOLD
    if case.get("switch") is not None:
        # "The threshold can be changed by setting the variable SINGLE_PASS_SAMPLE_THRESHOLD."
        sa_scores.SINGLE_PASS_SAMPLE_THRESHOLD = case["switch"]
    try:
        return _check_sampling(case, case.get("switch") or shipped)
    finally:
        sa_scores.SINGLE_PASS_SAMPLE_THRESHOLD = shipped


def _check_sampling(case, switch):
    from score_analysis import BootstrapConfig

    d = case["d"]
    method, strat = case["method"], case["strat"]
    # group-wise single-pass sampling iterates over the *listed* names; an explicitly listed
    # group without members is an empty stratum, which the property's domain excludes
    if not sampling_ok(d, method, strat, names=d.get("given_names")):
        return dict(nontrivial=False, labels=["skipped:empty-stratum"])
    g = _make(d)
    src_t = triples(g)
    names = g.groups.tolist()
    gc = Counter()
    for (s_, lab, cl), c in src_t.items():
        gc[lab] += c
    np.random.seed(case["seed"])
    cfg = BootstrapConfig(sampling_method=rt(method), stratified_sampling=rt(strat))
    for j in range(case["reps"]):
        b = g.bootstrap_sample(cfg)
        check_one_sample(g, src_t, names, b, method, strat,
                         f"{method}/{strat} seed={case['seed']} draw {j} config={d['sc']}/{d['ec']} switch={switch}", gc,
                         switch=switch)
    require(triples(g) == src_t, "grp:source-mutated", "")
    lacking = set(d["pg"]) != set(d["ng"])
    return dict(nontrivial=len(names) >= 2 or len(d["pos"]) >= 90,
                labels=[f"{method}/{strat}", f"groups:{min(len(names), 3)}"] + (["group-lacks-class"] if lacking else [])
                + (["big-source"] if len(d["pos"]) >= 90 else []))


# ---------------------------------------------------------------------- clause: history
def check_history(case):
    """swap / bootstrap_sample / __getitem__ / group_cm in any order on one evolving object."""
    from score_analysis import BootstrapConfig

    d = case["d"]
    g = _make(d)
    orig = input_triples(d)
    orig_sw = input_triples(d, swap=True)
    swapped = False
    sampled = False
    cur_src = triples(g)
    names = g.groups.tolist()
    steps_run = 0
    kinds = set()
    for i, st_ in enumerate(case["steps"]):
        op = st_["op"]
        ctx = f"step {i} {st_}"
        if op == "swap":
            g = g.swap()
            swapped = not swapped
            t = triples(g)
            exp = Counter({(s_, lab, "neg" if cl == "pos" else "pos"): c for (s_, lab, cl), c in cur_src.items()})
            require(t == exp, "grp:swap-triples", ctx)
            cur_src = t
            # swap() recomputes the name list from the labels present (a group that a previous
            # sample lost may disappear); the property only claims the list for samples.
            new_names = g.groups.tolist()
            present = {lab for (_, lab, _) in t}
            require(present <= {_norm(x) for x in new_names}, "grp:swap-names",
                    f"{ctx}: {new_names} after swap of {names}")
            names = new_names
        elif op == "sample":
            dd = dict(pos=g.pos.tolist(), neg=g.neg.tolist(),
                      pg=[_norm(x) for x in g.pos_groups.tolist()], ng=[_norm(x) for x in g.neg_groups.tolist()])
            if not sampling_ok(dd, st_["method"], st_["strat"], [_norm(x) for x in names]):
                continue
            gc = Counter()
            for (s_, lab, cl), c in cur_src.items():
                gc[lab] += c
            np.random.seed(st_["seed"])
            b = g.bootstrap_sample(BootstrapConfig(sampling_method=rt(st_["method"]),
                                                   stratified_sampling=rt(st_["strat"])))
            check_one_sample(g, cur_src, names, b, st_["method"], st_["strat"], ctx, gc)
            g = b
            cur_src = triples(g)
            sampled = True
        elif op == "getitem":
            name = names[st_["g"] % len(names)]
            sub = g[name]
            exp_p = sorted(s_ for (s_, lab, cl), c in cur_src.items() for _ in range(c)
                           if cl == "pos" and lab == _norm(name))
            exp_n = sorted(s_ for (s_, lab, cl), c in cur_src.items() for _ in range(c)
                           if cl == "neg" and lab == _norm(name))
            require(sub.pos.tolist() == exp_p and sub.neg.tolist() == exp_n, "grp:getitem",
                    lambda: f"{ctx}: group {name!r}: {sub.pos.tolist()}/{sub.neg.tolist()} expected "
                            f"{exp_p}/{exp_n}")
        elif op == "group_cm":
            thr = np.asarray(st_["thr"], dtype=float)
            gcm = g.group_cm(thr).matrix
            require(np.array_equal(gcm.sum(axis=0), g.cm(thr).matrix), "grp:partition-sum", ctx)
            sc, ec = g.score_class.value, g.equal_class.value
            for gi, name in enumerate(names):
                fp_ = [s_ for (s_, lab, cl), c in cur_src.items() for _ in range(c)
                       if cl == "pos" and lab == _norm(name)]
                fn_ = [s_ for (s_, lab, cl), c in cur_src.items() for _ in range(c)
                       if cl == "neg" and lab == _norm(name)]
                for k, t in enumerate(st_["thr"]):
                    tp, fn, fp, tn = ref_cm(fp_, fn_, t, sc, ec)
                    require(gcm[gi, k].tolist() == [[tp, fn], [fp, tn]], "grp:group-cm",
                            lambda: f"{ctx}: group {name!r} t={t!r}: {gcm[gi, k].tolist()}")
        steps_run += 1
        kinds.add(op)
        # every triple still comes from the original input (scores are distinct)
        base = orig_sw if swapped else orig
        require(all(k in base for k in cur_src), "grp:label-detached",
                lambda: f"{ctx}: {[k for k in cur_src if k not in base][:3]} not in the original data")
    return dict(nontrivial=steps_run >= 4 and sampled and len(kinds) >= 3, labels=[])


def make_machine(tier, on_history):
    class GroupHistory(RuleBasedStateMachine):
        def __init__(self):
            super().__init__()
            self.d = None
            self.steps = []

        @initialize(d=_group_sets(distinct=True, min_each=1, max_size=8))
        def start(self, d):
            self.d = d

        @rule()
        def swap(self):
            self.steps.append(dict(op="swap"))

        @rule(ms=st.sampled_from(SAMPLINGS), seed=gen.RNG_SEED)
        def sample(self, ms, seed):
            self.steps.append(dict(op="sample", method=ms[0], strat=ms[1], seed=seed))

        @rule(g=st.integers(0, 4))
        def getitem(self, g):
            self.steps.append(dict(op="getitem", g=g))

        @rule(data=st.data())
        def group_cm(self, data):
            vals = self.d["pos"] + self.d["neg"]
            self.steps.append(dict(op="group_cm", thr=data.draw(gen.threshold_values(vals, 2, allow_inf=False))))

        def teardown(self):
            if self.d is not None:
                on_history(dict(d=self.d, steps=self.steps))

    return GroupHistory


def _subset_cases(tier):
    fams = {
        "str-prefix": (["g1", "g2"], ["g1", "g2", "g10", "g11", "g12", "g2x"]),
        "str-wide-names": (["g10", "g1"], ["g1", "g10", "g2", "g100"]),
        "int-vs-float": ([1, 2], [1.0, 2.0, 1.5, 2.5, 2.25]),
        "int32-vs-int64": (np.asarray([5, 7], dtype=np.int32).tolist(), [5, 7, 5 + 2**32, 7 + 2**32]),
        "all-listed": (["g12", "g1", "g2", "g10", "g11"], ["g1", "g2", "g10", "g11", "g12"]),
    }
    for fam, (names, labels) in fams.items():
        for k, (sc, ec) in enumerate(CONFIGS):
            for held in ("array", "list"):
                yield dict(fam=fam, names=names, labels=labels, sc=sc, ec=ec, k=k, held=held)


def check_name_subset(case):
    """group_names listing only some of the labels present, held in a narrower dtype than the labels
    (round 10, c12-s): every score still carries the label it was given, and indexing / group matrices of a
    listed group cover exactly the scores with that label - not those of an unlisted look-alike label."""
    from score_analysis import GroupScores

    names, labels, k = case["names"], case["labels"], case["k"]
    L = len(labels)
    pos = [0.5 * ((7 * i + k) % 29) + 0.25 for i in range(17)]  # distinct values
    neg = [0.5 * ((11 * i + 3 * k) % 31) for i in range(19)]
    pgl = [labels[(3 * i + k) % L] for i in range(len(pos))]
    ngl = [labels[(5 * i + 1) % L] for i in range(len(neg))]
    ndt = np.int32 if case["fam"] == "int32-vs-int64" else None
    gn = np.asarray(names, dtype=ndt) if case["held"] == "array" else list(names)
    pg, ng = (np.asarray(pgl), np.asarray(ngl)) if case["held"] == "array" else (list(pgl), list(ngl))
    g = GroupScores(np.asarray(pos), np.asarray(neg), pos_groups=pg, neg_groups=ng, group_names=gn,
                    score_class=case["sc"], equal_class=case["ec"])
    ctx = f"group_names={names} labels present={labels} config={case['sc']}/{case['ec']}"
    want = Counter()
    for s_, lab in zip(pos, pgl):
        want[(float(s_), _norm(lab), "pos")] += 1
    for s_, lab in zip(neg, ngl):
        want[(float(s_), _norm(lab), "neg")] += 1
    got = triples(g)
    require(got == want, "grp:labels-detached",
            lambda: f"{ctx}: (score, label, class) triples of the object differ from the input: "
                    f"missing {list((want - got).items())[:3]} extra {list((got - want).items())[:3]}")
    require([_norm(_py(x)) for x in g.groups] == [_norm(x) for x in names], "grp:names-order", f"{ctx}: groups={g.groups!r}")
    thr = [-1.0, 2.0, 5.25, 7.0, 9.5, 20.0]
    gcm = np.asarray(g.group_cm(np.asarray(thr)).matrix)
    for j, name in enumerate(names):
        p_ = sorted(s_ for s_, lab in zip(pos, pgl) if lab == name)
        n_ = sorted(s_ for s_, lab in zip(neg, ngl) if lab == name)
        sub = g[name]
        require(sorted(np.asarray(sub.pos).tolist()) == p_ and sorted(np.asarray(sub.neg).tolist()) == n_,
                "grp:getitem", lambda: f"{ctx}: obj[{name!r}] has pos={np.asarray(sub.pos).tolist()} neg="
                                       f"{np.asarray(sub.neg).tolist()} but the scores labelled {name!r} are pos={p_} neg={n_}")
        for i, t in enumerate(thr):
            ref = ref_cm(p_, n_, t, case["sc"], case["ec"], 0, 0)
            gg = tuple(int(x) for x in gcm[j, i].reshape(-1))
            require(gg == ref, "grp:group-cm", lambda: f"{ctx}: group_cm({t})[{name!r}] = {gg}, counting the scores "
                                                       f"labelled {name!r} gives {ref}")
    return dict(nontrivial=case["fam"] != "all-listed", labels=[f"fam:{case['fam']}", f"held:{case['held']}"])


PROP = Prop(
    id="C12",
    rule=("Hypothesis: 1-5 groups named by strings (incl. '_', unicode, spaces) or ints, group "
          "labels assigned at random (groups may lack a class), scores with ties or distinct, "
          "unsorted / is_sorted / from_labels construction, 4 configs, shaped thresholds. Oracles: "
          "multiset of (score, group, class) triples equals the input's (and the class-exchanged "
          "one after swap); g[name] = filtered input; group_cm = counting on the filtered data; "
          "sum over groups = cm; group_* rates, aliases and groupwise(name / callable+kwargs) = "
          "per-group values. Sampling (distinct scores): replacement / single_pass / dynamic x None "
          "/ by_label / by_group (single_pass only where every sampled stratum is non-empty): every "
          "sampled triple occurs in the source, arrays sorted, group name list and order kept, "
          "totals / class strata / per-group counts preserved as documented. History (Hypothesis "
          "state machine): swap, bootstrap_sample, __getitem__, group_cm in any order on an "
          "evolving object. Labels compared by value. Non-trivial = >=2 groups, unsorted input and "
          "a group lacking a class or sharing a score (structure); >=2 groups (sampling); >=4 "
          "steps incl. a sampling step and 3 kinds of step (history)."),
    clauses=[
        Clause("structure", check_structure, strategy=_struct_cases(), quick=300, thorough=6000,
               quick_shards=3, min_nontrivial=50, doc="label attachment, partition, groupwise"),
        Clause("sampling", check_sampling, strategy=_sample_cases(), quick=400, thorough=8000,
               quick_shards=3, min_nontrivial=100, doc="labels stay attached through resampling"),
        Clause("name_subset", check_name_subset, kind="enum", cases=_subset_cases, quick_shards=4, shards=4,
               min_nontrivial=16, doc="group_names listing a subset of the labels, in a narrower dtype than the labels"),
        Clause("history", check_history, kind="machine", machine=make_machine, quick=80,
               thorough=1600, quick_shards=3, shards=8, steps=10, min_nontrivial=20,
               doc="swap / sample / getitem / group_cm histories"),
    ],
    assumptions=["labels are compared by value (==), not by dtype: by_group sampling of a group "
                 "lacking a class turns int labels into floats and widens string dtypes"],
)

RULE_EXTRA = ('clause name_subset: group_names that list only some of the labels present and are held in a narrower dtype (shorter strings, int vs float, int32 vs int64) with unlisted look-alike labels - labels stay as given, indexing and group matrices of a listed group cover exactly its scores; uint8 scores; explicit, non-alphabetical group_names incl. a name without members; a second object over the same caller arrays; sources of 90-130 scores per class. A groupwise metric that is an int for some groups and x.5 for others; the run-time switch re-assigned around the sampling clause.')
