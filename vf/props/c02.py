"""C02 - threshold setting round-trips within one sample; its three methods are coherent."""

from __future__ import annotations

import math

import numpy as np
from hypothesis import strategies as st

from .. import gen
from ..harness import Clause, Prop, require
from ..oracles import ALIASES, CONFIGS, METRICS, achievable_range, population, relevant_scores

MODES = ("grid", "grid", "dyadic", "distinct", "distinct", "float", "int", "uint")
DERIVED = ("none", "none", "none", "proportion", "replacement", "single_pass", "swap", "sample-of-swap")
INCREASING = {"fnr", "tnr", "tonr"}  # increasing in the threshold when score_class=pos


def _spacing(x):
    return float(np.spacing(max(abs(x), 1e-300)))


def near_tie_state(rel):
    """'none' (all >= 16 ulps apart), 'exact' (only exact ties), 'near' (unequal but close)."""
    s = sorted(float(x) for x in rel)
    state = "none"
    for a, b in zip(s, s[1:]):
        if a == b:
            if state == "none":
                state = "exact"
        elif b - a < 16 * _spacing(max(abs(a), abs(b))):
            return "near"
    return state


def shift(t, k):
    t = np.asarray(t, dtype=float).copy()
    d = np.inf if k > 0 else -np.inf
    for _ in range(abs(k)):
        t = np.nextafter(t, d)
    return t


@st.composite
def _cases(draw, max_size=10):
    s = draw(gen.score_sets(max_size=max_size, modes=MODES, mag=1e6, containers=("f64", "f64", "f32", "list", "neg-int", "pos-int", "neg-f32", "f128", "series", "swapped")))
    if draw(st.integers(0, 9)) == 0:
        # scores held in a narrow signed integer type, reaching the ends of its range (the smallest value has
        # no negative in that type)
        # (int32 is left out: at |score| ~ 2e9 an interpolated threshold 1e-8 of a gap away from a score rounds onto
        # it, which is outside this check's magnitude assumption |score| <= 1e6 - found by the thorough tier)
        dt = draw(st.sampled_from(["int8", "int16"]))
        lo, hi = {"int8": (-128, 127), "int16": (-32768, 32767), "int32": (-2**31, 2**31 - 1)}[dt]
        near = st.one_of(st.integers(lo, lo + 6), st.integers(hi - 6, hi), st.integers(-3, 3))
        n, m = draw(st.integers(0, max_size)), draw(st.integers(0, max_size))
        s = dict(s, pos=draw(st.lists(near, min_size=n, max_size=n)), neg=draw(st.lists(near, min_size=m, max_size=m)),
                 mode="int", container=dt, arr="narrow-int")
    pops = [len(s["pos"]) + s["ep"], len(s["neg"]) + s["en"],
            len(s["pos"]) + len(s["neg"]) + s["ep"] + s["en"]]
    k = draw(st.sampled_from([1, 2, 3, 4, 4, 5, 6, 6]))
    targets = sorted(draw(st.lists(gen.target_values(pops), min_size=k, max_size=k)))
    return dict(s=s, targets=targets, derived=draw(st.sampled_from(DERIVED)), seed=draw(gen.RNG_SEED),
                tlayout=draw(st.sampled_from(["1d", "1d", "F", "T", "strided"])),
                target_dtype=draw(st.sampled_from([None, None, None, "float32", "float16", "longdouble"])),
                ratio=draw(st.sampled_from([0.5, 0.8, 0.34])))


def _derive(obj, case):
    """A Scores object handed out by the library itself (bootstrap samples, swapped objects)."""
    from score_analysis import BootstrapConfig

    kind = case.get("derived", "none")
    if kind == "none":
        return obj
    if kind in ("swap", "sample-of-swap"):
        obj = obj.swap()
        if kind == "swap":
            return obj
        kind = "proportion"
    np.random.seed(case.get("seed", 0))
    cfg = BootstrapConfig(sampling_method=kind, ratio=case.get("ratio", 0.5) if kind == "proportion" else None)
    return obj.bootstrap_sample(cfg)


def _obj(s, sc, ec):
    from score_analysis import Scores

    return Scores(gen.build_scores(s, "pos"), gen.build_scores(s, "neg"),
                  nb_easy_pos=s["ep"], nb_easy_neg=s["en"], score_class=sc, equal_class=ec)


def check(case):
    s = case["s"]
    rs = np.asarray(case["targets"], dtype=float)
    if case.get("target_dtype"):
        # targets held in single / half / extended precision: the question asked is the value held
        with np.errstate(over="ignore"):
            rs = np.sort(rs.astype(case["target_dtype"]).astype(float))
    nontrivial = False
    derived = case.get("derived", "none")
    labels = [f"mode:{s['mode']}", f"container:{s.get('container')}", f"object:{derived}", f"target-dtype:{case.get('target_dtype')}",
              f"targets:{case.get('tlayout', '1d')}"]
    for sc, ec in CONFIGS:
        obj = _obj(s, sc, ec)
        if derived != "none":
            if derived in ("proportion", "replacement", "single_pass", "sample-of-swap") and \
                    (not len(s["pos"]) or not len(s["neg"])):
                derived = "none"  # bootstrap samples need both classes
            else:
                src_obj = obj
                obj = _derive(obj, case)
                if derived in ("proportion", "replacement", "single_pass") and s["mode"] != "uint":
                    # the source keeps answering for its own scores after a sample was drawn from it
                    for m in METRICS:
                        _check_metric(src_obj, m, s["pos"], s["neg"], s["ep"], s["en"], rs, sc, ec,
                                      labels, case.get("tlayout", "1d"), case.get("target_dtype"))
        if derived == "none":
            pos, neg, ep, en = s["pos"], s["neg"], s["ep"], s["en"]
        else:
            # the oracle only needs the multiset of scores of the object that was handed out
            pos, neg = [float(x) for x in obj.pos], [float(x) for x in obj.neg]
            ep, en = int(obj.nb_easy_pos), int(obj.nb_easy_neg)
        sc_o, ec_o = obj.score_class.value, obj.equal_class.value
        for m in METRICS:
            nontrivial |= _check_metric(obj, m, pos, neg, ep, en, rs, sc_o, ec_o, labels, case.get("tlayout", "1d"),
                                        case.get("target_dtype"))
    s_ep, s_en = s["ep"], s["en"]
    if s_ep or s_en:
        labels.append("easy")
    return dict(nontrivial=nontrivial, labels=sorted(set(labels)))


def _as_layout(rs, layout):
    """The same targets as a 2-D array in Fortran order / as a transposed view / as a strided 1-D view;
    results are read back in C order, i.e. element by element."""
    if layout == "strided":
        return np.repeat(rs, 2)[::2]
    if layout in ("F", "T") and len(rs) >= 4 and len(rs) % 2 == 0:
        a = rs.reshape(2, -1)
        return np.asfortranarray(a) if layout == "F" else np.ascontiguousarray(a.T).T
    return rs.copy()


def _check_metric(obj, m, pos, neg, ep, en, rs, sc, ec, labels, tlayout="1d", tdt=None):
    nontrivial = False
    if True:
        rel = [float(x) for x in relevant_scores(m, pos, neg)]
        if not rel:
            return False
        state = near_tie_state(rel)
        if state == "near":
            labels.append("near-tie-skipped")
            return False
        labels.append("ties" if state == "exact" else "tie-free")
        Nm = population(m, len(pos), len(neg), ep, en)
        lo_f, hi_f = achievable_range(m, len(pos), len(neg), ep, en)
        lo, hi = float(lo_f), float(hi_f)
        rc = np.minimum(np.maximum(rs, lo), hi)
        allowed = set(rel) | {math.nextafter(min(rel), -math.inf), math.nextafter(max(rel), math.inf)}
        tol = 1.0 / Nm + 1e-9
        if np.any((rc > lo) & (rc < hi)) and len(set(rel)) > 1:
            nontrivial = True
        if True:
            f = getattr(obj, m)
            th = getattr(obj, "threshold_at_" + m)
            rs_in = _as_layout(rs, tlayout)
            if tdt:
                rs_in = rs_in.astype(tdt)  # the targets as the caller holds them (rs are their exact values)
            rs_in0 = rs_in.copy()
            t_lin = np.asarray(th(rs_in), dtype=float)
            t_lo = np.asarray(th(rs_in, method="lower"), dtype=float)
            t_hi = np.asarray(th(rs_in, method="higher"), dtype=float)
            require(t_lin.shape == rs_in.shape and t_lo.shape == rs_in.shape and t_hi.shape == rs_in.shape,
                    "ts:shape", f"metric={m}: {t_lin.shape} for targets of shape {rs_in.shape}")
            t_lin, t_lo, t_hi = t_lin.reshape(-1), t_lo.reshape(-1), t_hi.reshape(-1)
            ctx = f"metric={m} config={sc}/{ec}"
            require(t_lin.shape == rs.shape and t_lo.shape == rs.shape and t_hi.shape == rs.shape,
                    "ts:shape", ctx)
            require(bool(np.all(np.isfinite(t_lin))), "ts:nonfinite", f"{ctx} {t_lin}")
            # 1. round trip
            c = np.asarray(f(t_lin), dtype=float)
            a = np.asarray(f(shift(t_lin, -3)), dtype=float)
            b = np.asarray(f(shift(t_lin, 3)), dtype=float)
            for i in range(len(rs)):
                if state == "none":
                    require(abs(c[i] - rc[i]) <= tol, "ts:roundtrip",
                            lambda: f"{ctx} r={rs[i]!r} (clipped {rc[i]!r}) t={t_lin[i]!r} gives "
                                    f"{c[i]!r}; |diff|={abs(c[i] - rc[i]) * Nm:.6f} samples of 1/{Nm}")
                else:
                    lo_v, hi_v = min(a[i], b[i], c[i]), max(a[i], b[i], c[i])
                    require(lo_v - tol <= rc[i] <= hi_v + tol, "ts:bracket",
                            lambda: f"{ctx} r={rs[i]!r} (clipped {rc[i]!r}) t={t_lin[i]!r}: metric "
                                    f"around t = {a[i]!r},{c[i]!r},{b[i]!r} does not bracket within "
                                    f"1/{Nm}")
            # 2. lower / higher are scores (or sentinels) and ordered by the metric
            f_lo = np.asarray(f(t_lo), dtype=float)
            f_hi = np.asarray(f(t_hi), dtype=float)
            for i in range(len(rs)):
                require(float(t_lo[i]) in allowed, "ts:lower-not-score",
                        lambda: f"{ctx} r={rs[i]!r} lower={t_lo[i]!r}")
                require(float(t_hi[i]) in allowed, "ts:higher-not-score",
                        lambda: f"{ctx} r={rs[i]!r} higher={t_hi[i]!r}")
                require(f_lo[i] <= f_hi[i], "ts:lower-higher-order",
                        lambda: f"{ctx} r={rs[i]!r} metric(lower)={f_lo[i]!r} > "
                                f"metric(higher)={f_hi[i]!r}")
                # 3. linear lies between, with the documented weight
                l_, h_ = min(t_lo[i], t_hi[i]), max(t_lo[i], t_hi[i])
                require(l_ - 4 * _spacing(l_) <= t_lin[i] <= h_ + 4 * _spacing(h_),
                        "ts:linear-not-between",
                        lambda: f"{ctx} r={rs[i]!r} linear={t_lin[i]!r} lower={t_lo[i]!r} "
                                f"higher={t_hi[i]!r}")
                gap = abs(t_hi[i] - t_lo[i])
                if gap >= 1e-7 * max(abs(t_lo[i]), abs(t_hi[i]), 1e-300) and gap > 0:
                    w = (t_lin[i] - t_lo[i]) / (t_hi[i] - t_lo[i])
                    fr = (rc[i] * Nm) % 1.0
                    d = abs(w - fr)
                    d = min(d, 1 - d)
                    require(d <= 1e-6, "ts:linear-weight",
                            lambda: f"{ctx} r={rs[i]!r} weight={w!r} expected frac(r*N)={fr!r} "
                                    f"(lower={t_lo[i]!r}, linear={t_lin[i]!r}, higher={t_hi[i]!r})")
            # 4. monotone in r (targets are sorted ascending)
            incr = (m in INCREASING) == (sc == "pos")
            for name, arr in (("linear", t_lin), ("lower", t_lo), ("higher", t_hi)):
                d = np.diff(arr)
                tl = 8 * np.spacing(np.abs(arr[:-1]) + np.abs(arr[1:]))
                bad = bool(np.any(d < -tl)) if incr else bool(np.any(d > tl))
                require(not bad, "ts:not-monotone",
                        lambda: f"{ctx} method={name} targets={rs.tolist()} thresholds={arr.tolist()}")
            # 5. aliases, scalar calls, caller array untouched
            al = getattr(obj, "threshold_at_" + ALIASES[m])
            for meth, ref in (("linear", t_lin), ("lower", t_lo), ("higher", t_hi)):
                require(np.array_equal(np.asarray(al(rs_in, method=meth)).reshape(-1), ref), "ts:alias",
                        f"{ctx} {meth}")
            i = len(rs) // 2
            sv = th(float(rs[i]))
            require(float(sv) == float(t_lin[i]), "ts:scalar-vs-array",
                    lambda: f"{ctx} r={rs[i]!r} scalar {sv!r} array {t_lin[i]!r}")
            require(np.array_equal(rs_in, rs_in0), "ts:mutated-input", ctx)
    return nontrivial


def check_invalid(case):
    """Documented rejections: unknown method, empty relevant class."""
    from score_analysis import Scores

    s = case["s"]
    for sc, ec in CONFIGS:
        obj = _obj(s, sc, ec)
        for m in METRICS:
            th = getattr(obj, "threshold_at_" + m)
            rel = relevant_scores(m, s["pos"], s["neg"])
            if not rel:
                try:
                    th(0.5)
                except ValueError:
                    pass
                else:
                    require(False, "ts:empty-class-accepted", f"{m} with empty relevant class")
            else:
                try:
                    th(0.5, method=case["method"])
                except ValueError:
                    pass
                else:
                    require(False, "ts:bad-method-accepted", f"{m} method={case['method']!r}")
    return dict(nontrivial=True, labels=["invalid"])


_invalid_cases = st.fixed_dictionaries(dict(
    s=gen.score_sets(max_size=4, modes=("grid",)),
    method=st.sampled_from(["nearest", "", "Linear", "midpoint"]),
))

def _large_cases(tier):
    sizes = [(200_001, 37), (400_000, 400_000)] if tier == "quick" else \
        [(200_001, 37), (400_000, 400_000), (1_000_003, 5), (7, 650_000), (300_000, 300_001)]
    for k, (n, m) in enumerate(sizes):
        for ep, en in ((0, 0), (3, 2)):
            yield dict(n=n, m=m, ep=ep, en=en, k=k)
    # classes of a few thousand scores whose ranges do not overlap (either way round), and one array object
    # serving as both classes (a chance-level baseline)
    for n, m, arr in ((1500, 1200, "pos-below"), (1200, 1500, "neg-below"), (2500, 2500, "pos-below"),
                      (2000, 2000, "shared")):
        for ep, en in ((0, 0), (3, 2)):
            yield dict(n=n, m=m, ep=ep, en=en, k=0, arr=arr)


def check_large(case):
    """Round trip within one sample for very large classes: one sample is then 1e-6 of the
    population, so tolerances that are harmless for small inputs become visible."""
    from score_analysis import Scores

    n, m, ep, en = case["n"], case["m"], case["ep"], case["en"]
    pos = 0.5 + 2.0 * np.arange(n)
    neg = 1.25 + 2.0 * np.arange(m) - (m - n)  # overlapping ranges, all values distinct
    arr = case.get("arr", "overlap")
    if arr == "pos-below":
        neg = pos[-1] + 0.75 + 2.0 * np.arange(m)
    elif arr == "neg-below":
        neg = pos[0] - 0.75 - 2.0 * np.arange(m)[::-1]
    elif arr == "shared":
        neg = pos  # the very same array object in both roles
    for sc, ec in CONFIGS:
        o = Scores(pos, neg, nb_easy_pos=ep, nb_easy_neg=en, score_class=sc, equal_class=ec, is_sorted=True)
        if case.get("k", 0) % 2 == 1:
            # the same data as one sorted score column with labels (the documented use of is_sorted=True)
            allv = np.concatenate([pos, neg])
            lab = np.concatenate([np.ones(n, dtype=int), np.zeros(m, dtype=int)])
            order = np.argsort(allv, kind="stable")
            o = Scores.from_labels(lab[order], allv[order], pos_label=1, nb_easy_pos=ep, nb_easy_neg=en, score_class=sc,
                                   equal_class=ec, is_sorted=True)
        for mt in METRICS:
            Nm = population(mt, n, m, ep, en)
            lo_f, hi_f = achievable_range(mt, n, m, ep, en)
            lo, hi = float(lo_f), float(hi_f)
            ks = [0, 1, 2, 3, 5, 10, 100]
            rs = sorted(set([lo + k / Nm for k in ks] + [hi - k / Nm for k in ks]
                            + [hi - 1e-5, hi - 3e-6, hi - 1e-7, lo + 1e-5, lo + 1e-8, (lo + hi) / 2,
                               lo + (hi - lo) / 3]))
            rs = np.asarray([r for r in rs if lo <= r <= hi])
            t = np.asarray(getattr(o, "threshold_at_" + mt)(rs), dtype=float)
            c = np.asarray(getattr(o, mt)(t), dtype=float)
            err = np.abs(c - rs) * Nm
            j = int(np.argmax(err))
            # (one array in both roles: every value is a tie across the classes, TOPR / TONR move in steps of two)
            step = 2.0 if arr == "shared" and mt in ("topr", "tonr") else 1.0
            require(err[j] <= step + 1e-3, "ts:roundtrip",
                    lambda: f"n={n} m={m} ep={ep} en={en} arrangement={arr} metric={mt} config={sc}/{ec} r={rs[j]!r}: threshold "
                            f"{t[j]!r} gives {c[j]!r}, off by {err[j]:.3f} samples of 1/{Nm}")
            d = np.diff(t)
            incr = (mt in INCREASING) == (sc == "pos")
            require(not (bool(np.any(d < 0)) if incr else bool(np.any(d > 0))), "ts:not-monotone",
                    f"n={n} m={m} metric={mt} config={sc}/{ec}")
            # one call with very many targets in arbitrary order: element i answers target i
            if case.get("k", 0) == 0 and mt in ("tpr", "fpr", "tonr"):
                L = 150_001
                grid = lo + (hi - lo) * ((np.arange(L) * 7919) % L) / L  # a permutation of an even grid
                tt = np.asarray(getattr(o, "threshold_at_" + mt)(grid), dtype=float)
                cc = np.asarray(getattr(o, mt)(tt), dtype=float)
                e2 = np.abs(cc - grid) * Nm
                j2 = int(np.argmax(e2))
                require(tt.shape == grid.shape and e2[j2] <= step + 1e-3, "ts:roundtrip",
                        lambda: f"n={n} m={m} metric={mt} config={sc}/{ec}: in one call with {L} unsorted targets, "
                                f"element {j2} (r={grid[j2]!r}) got threshold {tt[j2]!r} with {mt}={cc[j2]!r}, off by "
                                f"{e2[j2]:.1f} samples")
    return dict(nontrivial=True, labels=["large-n"])


PROP = Prop(
    id="C02",
    rule=("Hypothesis: score sets (modes grid/dyadic/int with ties, 'distinct' tie-free with "
          "minimum separation, arbitrary floats |x|<=1e6; all arrangements; easy counts 0..200; "
          "classes may be empty - a metric is checked whenever its relevant class is non-empty) x "
          "1-5 sorted targets (grid k/N, half grid, arbitrary in [-0.5,1.5], 0/1, beyond, +-1ulp of "
          "grid) x 6 metrics x 4 configs x 3 methods per case. Oracle: the object's own metric at "
          "the returned threshold within 1/N+1e-9 of the clipped target (tie-free), bracketing at "
          "+-3 ulps (ties); lower/higher in scores+sentinels and ordered; linear between with "
          "weight frac(r*N) on the circle; monotone in r; aliases/scalar equal. Non-trivial = some "
          "target strictly inside the achievable range and relevant scores not all equal. Cases "
          "whose relevant scores are unequal but <16 ulps apart are skipped (label)."),
    clauses=[
        Clause("round_trip_coherence", check, strategy=lambda tier: _cases(10 if tier == "quick" else 30), quick=350, thorough=7500,
               quick_shards=4, min_nontrivial=100,
               doc="round trip within one sample; lower/higher/linear coherence; monotone; aliases"),
        Clause("large_n", check_large, kind="enum", cases=_large_cases, quick_shards=4, shards=10,
               min_nontrivial=2, doc="2e5-1e6 scores per class: round trip within one sample near the ends"),
        Clause("rejections", check_invalid, strategy=_invalid_cases, quick=40, thorough=100,
               shards=1, min_nontrivial=5, doc="unknown method / empty class raise ValueError"),
    ],
    assumptions=["'moderate magnitude' is taken as |score| <= 1e6",
                 "near-ties (unequal scores < 16 ulps apart) are outside the property's tie / "
                 "tie-free dichotomy and are skipped, counted under label near-tie-skipped"],
)

RULE_EXTRA = ('score containers float64 / float32 / lists / mixed-dtype classes; fine score scale 1e-6. Scores held in int8/int16 at both ends of the type, byte-swapped arrays; large_n also with disjoint class ranges (either way round) and with one array object as both classes. The source object is checked again after a sample was drawn from it.')
