"""C09 - virtual easy samples behave exactly like materialised extreme scores."""

from __future__ import annotations

import numpy as np
from hypothesis import strategies as st

from .. import gen
from ..harness import Clause, Prop, require
from ..oracles import CONFIGS, METRICS, relevant_scores, ulp_step


AXIS_PAIRS = [(x, y) for x in ("fpr", "tnr") for y in ("tpr", "fnr")] + \
             [(x, y) for x in ("tpr", "fnr") for y in ("fpr", "tnr")]


@st.composite
def _cases(draw, max_size=9):
    s = draw(gen.score_sets(min_pos=1, min_neg=1, max_size=max_size,
                            modes=("grid", "grid", "dyadic", "distinct", "distinct", "int"),
                            easy=False))
    ez = st.one_of(st.just(0), st.integers(1, 4), st.integers(5, 40), st.integers(110, 127))
    k, m = draw(ez), draw(ez)
    T = len(s["pos"]) + len(s["neg"]) + k + m
    extra = draw(st.lists(st.floats(min_value=0.0, max_value=1.0), min_size=2, max_size=6))
    lims = sorted(draw(st.lists(st.floats(min_value=0.0, max_value=1.0), min_size=2, max_size=2)))
    return dict(s=s, k=k, m=m, repeated=draw(st.booleans()), gap=draw(st.sampled_from([1.0, 0.5, 10.0])),
                extra=extra, lims=lims, virtual_first=draw(st.booleans()), via_labels=draw(st.booleans()),
                easy_kind=draw(st.sampled_from(["py", "py", "py", "int8", "uint8", "int32", "uint64"])),
                thr_extra=draw(st.lists(st.floats(min_value=0.0, max_value=1.0), max_size=3)),
                dtype=draw(st.sampled_from([None, None, "float32", "longdouble"])) if s["mode"] in ("grid", "dyadic") else None)


def check(case):
    from score_analysis import Scores

    s = case["s"]
    dt = case.get("dtype") or float  # narrow / extended float containers hold these values exactly
    pos, neg = [float(x) for x in s["pos"]], [float(x) for x in s["neg"]]
    k, m, gap = case["k"], case["m"], case["gap"]
    allv = pos + neg
    lo, hi = min(allv), max(allv)
    span = hi - lo + 1.0
    if case["repeated"]:
        above = [hi + gap] * max(k, m)
        below = [lo - gap] * max(k, m)
    else:
        above = [hi + gap * (1 + j) for j in range(max(k, m))]
        below = [lo - gap * (1 + j) for j in range(max(k, m))]
    T = len(pos) + len(neg) + k + m
    # thresholds strictly between the materialised extremes
    cand = set()
    for x in allv:
        cand.update((x, ulp_step(x, 1), ulp_step(x, -1)))
    cand.update((lo - gap / 2, hi + gap / 2, ulp_step(lo - gap, 1), ulp_step(hi + gap, -1)))
    for u in case["thr_extra"]:
        cand.add(lo - gap / 2 + u * (hi - lo + gap))
    srt = sorted(set(allv))
    for a, b in zip(srt, srt[1:]):
        cand.add(a / 2 + b / 2)
    thr = np.asarray(sorted(cand), dtype=float)
    targets = np.asarray(sorted(set([j / T for j in range(T + 1)] + list(case["extra"]))), dtype=float)
    targets0 = targets.copy()
    l_, u_ = case["lims"]
    eligible_total = 0
    for sc, ec in CONFIGS:
        ctx = f"config={sc}/{ec} pos={pos} neg={neg} k={k} m={m} repeated={case['repeated']}"
        if sc == "pos":
            mp, mn = pos + above[:k], neg + below[:m]
        else:
            mp, mn = pos + below[:k], neg + above[:m]
        # the easy counts as Python ints or as the NumPy integers a count computed with NumPy is (narrow,
        # unsigned); the values fit their type
        ek = case.get("easy_kind", "py")
        kk, mm = (k, m) if ek == "py" else (np.dtype(ek).type(k), np.dtype(ek).type(m))
        if case.get("via_labels"):
            # the documented alternative constructor
            lab = np.asarray([1] * len(pos) + [0] * len(neg))
            V = Scores.from_labels(lab, np.asarray(pos + neg, dtype=dt), pos_label=1, nb_easy_pos=kk,
                                   nb_easy_neg=mm, score_class=sc, equal_class=ec)
        else:
            V = Scores(np.asarray(pos, dtype=dt), np.asarray(neg, dtype=dt), nb_easy_pos=kk,
                       nb_easy_neg=mm, score_class=sc, equal_class=ec)
        M = Scores(np.asarray(mp, dtype=dt), np.asarray(mn, dtype=dt), score_class=sc, equal_class=ec)
        cv, cmm = V.cm(thr).matrix, M.cm(thr).matrix
        if not np.array_equal(cv, cmm):
            i = int(np.argmax(np.any(cv != cmm, axis=(-1, -2))))
            require(False, "easy:cm",
                    f"{ctx}: at t={thr[i]!r} virtual {cv[i].tolist()} materialised {cmm[i].tolist()}")
        a0, a1 = float(V.auc()), float(M.auc())
        require(abs(a0 - a1) <= 1e-12, "easy:auc", f"{ctx}: virtual {a0!r} materialised {a1!r}")
        p0, p1 = float(V.auc(l_, u_)), float(M.auc(l_, u_))
        require(abs(p0 - p1) <= 1e-12, "easy:partial-auc",
                f"{ctx}: auc({l_!r},{u_!r}) virtual {p0!r} materialised {p1!r}")
        # ... on every pair of axes that plots a rate of one class against a rate of the other
        # (ROC, DET and their mirror images)
        for xa, ya in AXIS_PAIRS:
            for lims in ((), (l_, u_)):
                q0, q1 = float(V.auc(*lims, x_axis=xa, y_axis=ya)), float(M.auc(*lims, x_axis=xa, y_axis=ya))
                require(abs(q0 - q1) <= 1e-12, "easy:auc-axes",
                        lambda: f"{ctx}: auc({', '.join(map(repr, lims))}, x_axis={xa}, y_axis={ya}) virtual {q0!r} "
                                f"materialised {q1!r}")
        # every rate under its primary and under its alias name
        alias_of = {"tar": "tpr", "frr": "fnr", "trr": "tnr", "far": "fpr", "acceptance_rate": "topr",
                    "rejection_rate": "tonr"}
        for mt in list(METRICS) + list(alias_of):
            rel = relevant_scores(alias_of.get(mt, mt), pos, neg)
            rmin, rmax = min(rel), max(rel)
            # one target array object is shared by all calls; which object is asked first alternates
            if case.get("virtual_first", False):
                tv = np.asarray(getattr(V, "threshold_at_" + mt)(targets), dtype=float)
                tm = np.asarray(getattr(M, "threshold_at_" + mt)(targets), dtype=float)
            else:
                tm = np.asarray(getattr(M, "threshold_at_" + mt)(targets), dtype=float)
                tv = np.asarray(getattr(V, "threshold_at_" + mt)(targets), dtype=float)
            require(np.array_equal(targets, targets0), "easy:threshold",
                    f"{ctx}: threshold_at_{mt} changed the caller's target array, so the two objects were "
                    f"asked different questions")
            ok = (tm >= rmin) & (tm <= rmax)
            eligible_total += int(ok.sum())
            if ok.any():
                err = np.abs(tm[ok] - tv[ok])
                j = int(np.argmax(err))
                require(float(err[j]) <= 1e-9 * span, "easy:threshold",
                        lambda: f"{ctx}: threshold_at_{mt}({targets[ok][j]!r}) virtual {tv[ok][j]!r} "
                                f"materialised {tm[ok][j]!r}")
    labels = ["repeated" if case["repeated"] else "distinct-extremes", f"mode:{s['mode']}", f"dtype:{case.get('dtype') or 'float64'}"]
    if k and m:
        labels.append("both-easy")
    return dict(nontrivial=(k + m > 0) and eligible_total > 0, labels=labels)


# ------------------------------------------------------------------ a few easy samples next to very many scores
def _large_cases(tier):
    sizes = [(300_000, 300_000, 2, 3), (150_001, 40, 1, 0), (50_000, 40, 950_000, 0)] if tier == "quick" else \
        [(300_000, 300_000, 2, 3), (150_001, 40, 1, 0), (40, 500_000, 0, 1), (1_000_000, 20, 5, 5),
         (50_000, 40, 950_000, 0), (40, 60_000, 3, 500_000), (100_000, 100_000, 400_000, 300_000)]
    for n, m, k, e in sizes:
        yield dict(n=n, m=m, k=k, e=e)


def check_large(case):
    from score_analysis import Scores

    n, m, k, e = case["n"], case["m"], case["k"], case["e"]
    pos = 0.5 + 2.0 * np.arange(n)
    neg = 1.25 + 2.0 * np.arange(m) - (m - n)
    lo, hi = min(pos[0], neg[0]), max(pos[-1], neg[-1])
    T = n + m + k + e
    for sc, ec in CONFIGS:
        above = hi + 10.0 + np.arange(max(k, e))
        below = lo - 10.0 - np.arange(max(k, e))
        mp = np.concatenate([pos, above[:k] if sc == "pos" else below[:k]])
        mn = np.concatenate([neg, below[:e] if sc == "pos" else above[:e]])
        V = Scores(pos, neg, nb_easy_pos=k, nb_easy_neg=e, score_class=sc, equal_class=ec, is_sorted=True)
        M = Scores(mp, mn, score_class=sc, equal_class=ec)
        thr = np.concatenate([pos[:3], neg[-3:], [lo - 5.0, hi + 5.0, (lo + hi) / 2]])
        require(np.array_equal(V.cm(thr).matrix, M.cm(thr).matrix), "easy:cm", f"n={n} m={m} k={k} e={e} {sc}/{ec}")
        for mt in METRICS:
            rel = relevant_scores(mt, [pos[0], pos[-1]], [neg[0], neg[-1]])
            rmin, rmax = min(rel), max(rel)
            Nm = {"tpr": n + k, "fnr": n + k, "tnr": m + e, "fpr": m + e}.get(mt, T)
            # ... incl. the first few scored samples beyond the share the easy samples account for
            edge = [(E + j) / Nm for E in (k, e, k + e) for j in (1, 2, 3, 7, 100)]
            edge += [1 - x for x in edge]
            targets = np.asarray(sorted(set([j / Nm for j in (1, 2, 3, 7, 100, Nm // 3, Nm // 2, Nm - 100, Nm - 7,
                                                             Nm - 3, Nm - 2, Nm - 1)] + [0.25, 0.5, 0.9]
                                            + [x for x in edge if 0 <= x <= 1])))
            tm = np.asarray(getattr(M, "threshold_at_" + mt)(targets), dtype=float)
            tv = np.asarray(getattr(V, "threshold_at_" + mt)(targets), dtype=float)
            ok = (tm >= rmin) & (tm <= rmax)
            if ok.any():
                err = np.abs(tm[ok] - tv[ok])
                j = int(np.argmax(err))
                require(float(err[j]) <= 1e-9 * (hi - lo), "easy:threshold",
                        lambda: f"n={n} m={m} k={k} e={e} config={sc}/{ec}: threshold_at_{mt}({targets[ok][j]!r}) "
                                f"virtual {tv[ok][j]!r} materialised {tm[ok][j]!r}")
    return dict(nontrivial=k + e > 0, labels=["large-n"])


PROP = Prop(
    id="C09",
    rule=("Hypothesis: score sets with both classes non-empty (ties, int-valued, tie-free), k,m in "
          "{0, 1-4, 5-40} easy positives/negatives, materialised twin with the k+m samples beyond "
          "all scores on their own class's side (as distinct values or one repeated value, gap "
          "0.5/1/10), all 4 configs per case. Differential oracle between the two objects: cm equal "
          "exactly at every score, +-1ulp, midpoints and points up to the first materialised "
          "extreme; auc() and auc(lower,upper) equal (1e-12); for the 6 metrics (linear) every "
          "target on the whole grid j/T plus random ones whose materialised threshold lies within "
          "[min,max] of the relevant scored samples gives the same threshold (1e-9*range). "
          "Non-trivial = k+m>0 and at least one eligible target."),
    clauses=[Clause("few_easy_many_scores", check_large, kind="enum", cases=_large_cases, quick_shards=2, shards=4,
                    min_nontrivial=2, doc="1-5 or 5e5-1e6 easy samples next to 4e4-1e6 scored samples"),
             Clause("virtual_vs_materialised", check, strategy=lambda tier: _cases(9 if tier == "quick" else 25), quick=300, thorough=12000,
                    quick_shards=4, min_nontrivial=150, doc="differential: virtual vs materialised")],
)

RULE_EXTRA = ('full and partial AUC on all 8 axis pairs that plot a rate of one class against a rate of the other; float32 / long-double containers; the virtual and the materialised object are asked in alternating order with one shared target array. Thresholds under the six alias names; easy counts as np.int8 / np.uint8 / np.int32 / np.uint64 scalars (up to 127).')
