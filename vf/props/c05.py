"""C05 - multiclass confusion matrices: faithful construction, conservative one-vs-all."""

from __future__ import annotations

import math

import numpy as np
from hypothesis import strategies as st

from .. import gen
from ..harness import Clause, Prop, Violation, require

_TEXT = st.text(alphabet=st.characters(exclude_categories=("Cs",), exclude_characters="\x00"),
                min_size=0, max_size=4)
_NAMES = st.one_of(st.sampled_from(["a", "b", "cc", "d_e", "_", "x_", "F", "é", "0", " "]), _TEXT)


@st.composite
def class_sets(draw, min_k=2, max_k=6):
    kind = draw(st.sampled_from(["int", "int", "str", "str", "float"]))
    k = draw(st.integers(min_k, max_k))
    if kind == "int":
        cls = draw(st.lists(st.integers(-9, 30), min_size=k, max_size=k, unique=True))
    elif kind == "str":
        cls = draw(st.lists(_NAMES, min_size=k, max_size=k, unique=True))
    else:
        cls = [x / 4 for x in draw(st.lists(st.integers(-8, 20), min_size=k, max_size=k, unique=True))]
    return kind, cls


# ------------------------------------------------------------ clause: from_predictions
@st.composite
def _pred_cases(draw):
    kind, cls = draw(class_sets())
    n = draw(st.integers(0, 40))
    idx = st.integers(0, len(cls) - 1)
    lab = draw(st.lists(idx, min_size=n, max_size=n))
    pred = draw(st.lists(idx, min_size=n, max_size=n))
    wk = draw(st.sampled_from(["none", "none", "int", "quarter", "float", "bigint"]))
    if wk == "none":
        w = None
    elif wk == "int":
        w = draw(st.lists(st.integers(1, 9), min_size=n, max_size=n))
    elif wk == "bigint":
        # integer weights (multiplicities of pre-aggregated rows) whose totals need more than 53 bits
        w = draw(st.lists(st.one_of(st.integers(1, 9), st.sampled_from([2**55 + 1, 2**53 + 1, 2**57 + 3])),
                          min_size=n, max_size=n))
    elif wk == "quarter":
        w = [x / 4 for x in draw(st.lists(st.integers(1, 40), min_size=n, max_size=n))]
    else:
        w = draw(st.lists(st.floats(min_value=1e-3, max_value=1e6), min_size=n, max_size=n))
    order = draw(st.one_of(st.none(), st.permutations(list(range(len(cls))))))
    label_dtype = None
    if draw(st.integers(0, 5)) == 0:
        # consecutive 64-bit ids; the class list is signed, the label / prediction arrays unsigned
        kind, cls = "int", [2**53 + 1 + j for j in range(len(cls))]
        label_dtype = draw(st.sampled_from(["uint64", "int64"]))
    elif draw(st.integers(0, 6)) == 0:
        # two classes 0/1 where one side is a boolean mask (`y > 0`) and the other holds integers; the class
        # list, if given, in either type (True == 1 and False == 0 name the same classes)
        kind, cls = "int", [0, 1]
        lab, pred = [i % 2 for i in lab], [i % 2 for i in pred]
        order = draw(st.one_of(st.none(), st.permutations([0, 1])))
        label_dtype = draw(st.sampled_from(["mask-labels", "mask-predictions", "bool-classes"]))
    return dict(kind=kind, classes=cls, lab=lab, pred=pred, wk=wk, w=w, order=order, label_dtype=label_dtype)


def _np_classes(kind, vals):
    return np.asarray(vals) if vals else np.asarray(vals, dtype={"int": int, "str": str, "float": float}[kind])


def check_pred(case):
    from score_analysis import ConfusionMatrix

    cls = case["classes"]
    lab = [cls[i] for i in case["lab"]]
    pred = [cls[i] for i in case["pred"]]
    w = case["w"]
    n = len(lab)
    counts = {}
    for i in range(n):
        key = (case["lab"][i], case["pred"][i])
        counts[key] = counts.get(key, 0) + (1 if w is None else w[i])
    if case["order"] is None:
        present = sorted(set(case["lab"]) | set(case["pred"]), key=lambda i: cls[i])
        order = present
        kwargs = {}
    else:
        order = list(case["order"])
        kwargs = dict(classes=[cls[i] for i in order])
    labels_a = _np_classes(case["kind"], lab)
    pred_a = _np_classes(case["kind"], pred)
    if case.get("label_dtype") in ("mask-labels", "mask-predictions", "bool-classes"):
        if case["label_dtype"] == "mask-labels":
            labels_a, pred_a = np.asarray(lab, dtype=bool), np.asarray(pred, dtype=int)
        elif case["label_dtype"] == "mask-predictions":
            labels_a, pred_a = np.asarray(lab, dtype=int), np.asarray(pred, dtype=bool)
        elif kwargs:
            kwargs = dict(classes=[bool(c) for c in kwargs["classes"]])
    elif case.get("label_dtype"):
        labels_a, pred_a = np.asarray(lab, dtype=case["label_dtype"]), np.asarray(pred, dtype=case["label_dtype"])
        if kwargs:
            kwargs = dict(classes=np.asarray(kwargs["classes"], dtype=np.int64))
    try:
        cm = ConfusionMatrix(labels=labels_a, predictions=pred_a, weights=w, **kwargs)
    except ValueError:
        require(len(order) < 2, "build:rejected-valid", f"ValueError for {len(order)} classes")
        return dict(nontrivial=False, labels=["rejected<2classes"])
    require(len(order) >= 2, "build:accepted-<2-classes", "")
    K = len(order)
    require(cm.matrix.shape == (K, K), "build:shape", f"{cm.matrix.shape}")
    require([c == d for c, d in zip(list(cm.classes), [cls[i] for i in order])] == [True] * K
            and len(cm.classes) == K, "build:classes",
            f"{list(cm.classes)} vs {[cls[i] for i in order]}")
    offdiag = False
    for a, i in enumerate(order):
        for b, j in enumerate(order):
            exp = counts.get((i, j), 0)
            got = cm.matrix[a, b].item()
            if case["wk"] == "float":
                ok = abs(got - exp) <= 1e-9 * max(abs(exp), 1e-300)
            else:
                ok = got == exp
            require(ok, "build:entry", lambda: f"[{cls[i]!r},{cls[j]!r}] got {got!r} expected {exp!r}")
            if a != b and exp:
                offdiag = True
    # binary=True with labels in {0, 1}: class order [1, 0]
    if case["kind"] == "int":
        lb = [i % 2 for i in case["lab"]]
        pb = [i % 2 for i in case["pred"]]
        cb = ConfusionMatrix(labels=lb, predictions=pb, weights=w, binary=True)
        require(list(cb.classes) == [1, 0], "build:binary-classes", str(cb.classes))
        ref = [[0, 0], [0, 0]]
        for i in range(n):
            ref[1 - lb[i]][1 - pb[i]] += 1 if w is None else w[i]
        got = cb.matrix.tolist()
        ok = all(abs(got[a][b] - ref[a][b]) <= 1e-9 * max(abs(ref[a][b]), 1e-300)
                 for a in range(2) for b in range(2))
        require(ok, "build:binary-entry", f"{got} vs {ref}")
    labels = [f"kind:{case['kind']}", f"w:{case['wk']}", "order:given" if kwargs else "order:unique"]
    return dict(nontrivial=K >= 3 and offdiag and (case["order"] is None or order != sorted(order)),
                labels=labels)


# ------------------------------------------------------------ clause: many classes
def _many_class_cases(tier):
    """Class sets well beyond the handful the random clause draws (letters, ids, vocabularies):
    sizes around the ranges of 8- and 16-bit index types."""
    sizes = [12, 16, 26, 100, 127, 128, 130, 182, 256, 300] if tier == "quick" else \
        [11, 12, 13, 16, 17, 26, 50, 100, 127, 128, 129, 130, 181, 182, 200, 255, 256, 257, 300, 1000]
    for K in sizes:
        for kind in ("int", "str"):
            cls = [3 * i - 7 for i in range(K)] if kind == "int" else [f"c{i:04d}" for i in range(K)]
            n = 3 * K
            lab = [(i * 7) % K for i in range(n)]
            pred = [(lab[i] + (3 * (i // 5) + 1 if i % 5 == 0 else 0)) % K for i in range(n)]  # 80% correct
            for given in (False, True):
                yield dict(kind=kind, classes=cls, lab=lab, pred=pred, wk="none" if K % 2 else "int",
                           w=None if K % 2 else [1 + i % 3 for i in range(n)],
                           order=[(i * 5 + 1) % K if K % 5 else i for i in range(K)] if given else None, K=K)


def check_many(case):
    out = check_pred(case)
    out["labels"] = [f"K:{case['K']}", f"kind:{case['kind']}"]
    out["nontrivial"] = True
    return out


# ------------------------------------------------------------ clause: renderings
@st.composite
def _render_cases(draw):
    kind, cls = draw(class_sets())
    K = len(cls)
    ent = st.one_of(st.just(0), st.integers(0, 9), st.integers(0, 40).map(lambda x: x / 4))
    A = draw(st.lists(st.lists(ent, min_size=K, max_size=K), min_size=K, max_size=K))
    perm = st.permutations(list(range(K)))
    return dict(kind=kind, classes=cls, A=A, order=draw(st.one_of(st.none(), perm)),
                d_outer=draw(perm), d_inner=[draw(perm) for _ in range(K)],
                df_rows=draw(perm), df_cols=draw(perm))


def check_render(case):
    import pandas as pd

    from score_analysis import ConfusionMatrix

    cls, A = case["classes"], case["A"]
    K = len(cls)
    order = case["order"]
    kw = {} if order is None else dict(classes=[cls[i] for i in order])

    def expect(o):
        return [[A[i][j] for j in o] for i in o]

    def same(cm, o, what):
        require(len(cm.classes) == K and all(c == cls[i] for c, i in zip(cm.classes, o)),
                "render:classes", f"{what}: {list(cm.classes)} vs {[cls[i] for i in o]}")
        require(np.array_equal(np.asarray(cm.matrix, dtype=float), np.asarray(expect(o), dtype=float)),
                "render:matrix", lambda: f"{what}: {cm.matrix.tolist()} vs {expect(o)}")

    # dict of dicts, insertion orders shuffled independently
    d = {}
    for r, i in enumerate(case["d_outer"]):
        d[cls[i]] = {cls[j]: A[i][j] for j in case["d_inner"][r]}
    same(ConfusionMatrix(matrix=d, **kw), order if order is not None else case["d_outer"], "dict")
    # DataFrame with permuted index and columns
    rows, cols = case["df_rows"], case["df_cols"]
    df = pd.DataFrame([[A[i][j] for j in cols] for i in rows], index=[cls[i] for i in rows],
                      columns=[cls[j] for j in cols])
    df0 = df.copy()
    same(ConfusionMatrix(matrix=df, **kw), order if order is not None else rows, "dataframe")
    require(df.equals(df0), "render:mutated-dataframe", "")
    # nested lists: classes only name the rows/columns
    o = order if order is not None else list(range(K))
    cm = ConfusionMatrix(matrix=expect(o), **kw)
    if order is None:
        require(list(cm.classes) == list(range(K)), "render:default-classes", str(cm.classes))
        require(np.array_equal(np.asarray(cm.matrix, dtype=float), np.asarray(A, dtype=float)),
                "render:matrix", "nested lists")
    else:
        same(cm, o, "nested lists")
    # documented rejections: key mismatch
    bad = dict(d)
    first = cls[case["d_outer"][0]]
    bad[first] = {k: v for k, v in list(d[first].items())[1:]}
    try:
        ConfusionMatrix(matrix=bad)
        raise Violation("render:key-mismatch-accepted", "row with a missing key accepted")
    except ValueError:
        pass
    if order is not None:
        try:
            ConfusionMatrix(matrix=d, classes=[cls[i] for i in order][:-1] + ["__missing__"])
            raise Violation("render:key-mismatch-accepted", "classes not matching keys accepted")
        except ValueError:
            pass
    off = any(A[i][j] for i in range(K) for j in range(K) if i != j)
    return dict(nontrivial=K >= 3 and off and order is not None and list(order) != sorted(order),
                labels=[f"kind:{case['kind']}", f"K:{K}"])


# ------------------------------------------------------------ clause: one_vs_all
LEADS = [(), (), (2,), (1, 2), (3, 1), (0,), (2, 0)]
PER_CLASS = ["tp", "tn", "fp", "fn", "p", "n", "top", "ton", "tpr", "tnr", "fpr", "fnr", "ppv",
             "npv", "fdr", "for_", "topr", "tonr", "class_accuracy", "class_error_rate",
             "tar", "frr", "trr", "far", "acceptance_rate", "rejection_rate"]
PER_CLASS_CI = ["tpr_ci", "tnr_ci", "fpr_ci", "fnr_ci", "tar_ci", "frr_ci", "trr_ci", "far_ci"]
_BIN = {"class_accuracy": "accuracy", "class_error_rate": "error_rate"}


_NARROW = {"uint8": 255, "int16": 32767, "int32": 2**31 - 1}


@st.composite
def _ova_cases(draw):
    kind, cls = draw(class_sets())
    if draw(st.integers(0, 5)) == 0:
        # classes that are dates / time stamps (months, or nanoseconds as pandas holds them)
        kind = draw(st.sampled_from(["datetime64[M]", "datetime64[ns]", "timedelta64[s]"]))
        cls = draw(st.lists(st.integers(0, 400), min_size=len(cls), max_size=len(cls), unique=True))
    K = len(cls)
    lead = draw(st.sampled_from(LEADS))
    n = gen.shape_size(lead) * K * K
    dtype = draw(st.sampled_from(["int", "int", "float", "float", "uint8", "int16", "int32", "uint64"]))
    if dtype in _NARROW:
        # counts stored in a narrow integer dtype: every entry fits, row / column sums and the trace need not
        top_ = _NARROW[dtype]
        ent = st.one_of(st.just(0), st.integers(0, 12), st.integers(0, top_), st.integers(top_ // 2, top_))
    else:
        ent = (st.one_of(st.just(0), st.integers(0, 12), st.integers(0, 10**6)) if dtype in ("int", "uint64")
               else st.one_of(st.just(0.0), st.integers(0, 40).map(lambda x: x / 4)))
    flat = draw(st.lists(ent, min_size=n, max_size=n))
    hub = False
    if dtype == "float" and K >= 3 and draw(st.integers(0, 3)) == 0:
        # weights in tenths, all mass in the row and the column of one "hub" class: its exact TN is 0
        h = draw(st.integers(0, K - 1))
        tenths = draw(st.lists(st.integers(0, 9), min_size=n, max_size=n))
        flat = [t / 10 if (idx // K) % K == h or idx % K == h else 0.0 for idx, t in enumerate(tenths)]
        hub = True
    if dtype == "uint64" and n:
        # counts beyond 2^53 held as unsigned 64-bit integers (e.g. inherited from uint64 weights)
        flat = [min(v, 10**6) for v in flat]
        flat[draw(st.integers(0, n - 1))] = draw(st.sampled_from([2**60 + 1, 2**53 + 1, 2**62 + 12345]))
    scale = 1.0
    if hub:
        scale = 0.1  # sums of tenths are not exact
    elif dtype == "float":
        # the overall scale of a weighted / normalised matrix is arbitrary
        scale = draw(st.sampled_from([1.0, 1.0, 1e-11, 1e-9, 1e-6, 1e-3, 1e6, 1e12]))
        flat = [v * scale for v in flat]
    return dict(kind=kind, classes=cls, lead=list(lead), dtype=dtype, flat=flat, scale=scale,
                perm=draw(st.permutations(list(range(K)))),
                alpha=draw(st.floats(min_value=0.001, max_value=0.999)),
                as_dict_kind=draw(st.sampled_from(["True", "True", "np.True_", "1"])))


def _denominator(name, ova):
    """Denominator array of a per-class rate on a (..., K, 2, 2) one-vs-all array (None for counts)."""
    tp, fn, fp, tn = ova[..., 0, 0], ova[..., 0, 1], ova[..., 1, 0], ova[..., 1, 1]
    base = name[:-3] if name.endswith("_ci") else name
    if base in ("tp", "tn", "fp", "fn", "p", "n", "top", "ton"):
        return None
    if base in ("tpr", "fnr", "tar", "frr"):
        return tp + fn
    if base in ("tnr", "fpr", "trr", "far"):
        return fp + tn
    if base in ("ppv", "fdr"):
        return tp + fp
    if base in ("npv", "for_"):
        return tn + fn
    return tp + fn + fp + tn


def check_ova(case):
    from score_analysis import ConfusionMatrix, metrics

    cls = case["classes"]
    if str(case.get("kind", "")).startswith(("datetime64", "timedelta64")):
        base = np.datetime64("2020-01") if "[M]" in case["kind"] else np.datetime64("2024-05-01T00:00:00", "ns") \
            if case["kind"].startswith("datetime64") else np.timedelta64(0, "s")
        step = np.timedelta64(1, "M") if "[M]" in case["kind"] else np.timedelta64(3_600_000_000_123, "ns") \
            if case["kind"].startswith("datetime64") else np.timedelta64(90, "s")
        cls = list(np.asarray([base + int(k) * step for k in cls]))  # NumPy date / duration scalars
    K = len(cls)
    lead = tuple(case["lead"])
    dt = np.float64 if case["dtype"] == "float" else np.int64
    A = np.asarray(case["flat"], dtype=dt).reshape(lead + (K, K))
    A_in = A.astype(case["dtype"]) if case["dtype"] in _NARROW or case["dtype"] == "uint64" else A  # as stored by the caller
    A0 = A_in.copy()
    c = ConfusionMatrix(matrix=A_in, classes=cls)
    o = c.one_vs_all()
    om = o.matrix
    require(om.shape == lead + (K, 2, 2), "ova:shape", f"{om.shape}")
    require(o.binary, "ova:not-binary", "")
    # reference, computed cell by cell in Python
    Af = A.reshape((-1, K, K)).tolist()
    of = om.reshape((-1, K, 2, 2)).tolist()
    exact_sums = case["dtype"] != "float" or case.get("scale", 1.0) == 1.0

    def eq(a, b, total):
        # integer and quarter-valued matrices sum exactly; scaled float matrices to rounding error,
        # measured relative to the matrix's own population (never an absolute tolerance)
        return a == b if exact_sums else abs(a - b) <= 1e-12 * abs(total)

    for b, M in enumerate(Af):
        total = sum(sum(r) for r in M)
        for j in range(K):
            tp = M[j][j]
            rs = sum(M[j])
            cs = sum(M[i][j] for i in range(K))
            g = of[b][j]
            ctx = f"class {cls[j]!r} of {M}"
            require(g[0][0] == tp, "ova:tp-diagonal", ctx)
            require(eq(g[0][0] + g[0][1], rs, total), "ova:row-sum", f"{ctx}: {g}")
            require(eq(g[0][0] + g[1][0], cs, total), "ova:col-sum", f"{ctx}: {g}")
            require(eq(g[0][0] + g[0][1] + g[1][0] + g[1][1], total, total), "ova:population",
                    f"{ctx}: {g} total {total}")
    # per-class metrics: shape, agreement with the binary metric on the reference one-vs-all,
    # as_dict, permutation equivariance
    ref_ova = np.zeros(lead + (K, 2, 2), dtype=dt)
    for j in range(K):
        ref_ova[..., j, 0, 0] = A[..., j, j]
        ref_ova[..., j, 0, 1] = A[..., j, :].sum(-1) - A[..., j, j]
        ref_ova[..., j, 1, 0] = A[..., :, j].sum(-1) - A[..., j, j]
        ref_ova[..., j, 1, 1] = (A.sum((-1, -2)) - A[..., j, :].sum(-1) - A[..., :, j].sum(-1)
                                 + A[..., j, j])
    perm = list(case["perm"])
    Ap = A[..., perm, :][..., :, perm]
    cp = ConfusionMatrix(matrix=Ap.astype(A_in.dtype), classes=[cls[i] for i in perm])
    alpha = case["alpha"]
    for name in PER_CLASS + PER_CLASS_CI:
        is_ci = name.endswith("_ci")
        kw = dict(alpha=alpha) if is_ci else {}
        v = np.asarray(getattr(c, name)(**kw))
        want_shape = lead + (K, 2) if is_ci else lead + (K,)
        require(v.shape == want_shape, "pc:shape", f"{name}: {v.shape} vs {want_shape}")
        exp = np.asarray(getattr(metrics, _BIN.get(name, name))(ref_ova, **kw))
        if exact_sums:
            ok = np.allclose(v, exp, rtol=1e-12, atol=0, equal_nan=True)
        else:
            # scaled float matrices: counts to rounding error relative to the population; rates only
            # where their denominator is clearly non-zero (a true 0 may come out as +-1e-17*pop)
            pop = ref_ova.sum((-1, -2))
            den = _denominator(name, ref_ova)
            if is_ci:
                ok = True  # sqrt(p(1-p)/n) amplifies rounding noise in p by 1/sqrt(n): not compared
            elif den is None:
                ok = bool(np.all(np.abs(v - exp) <= 1e-12 * pop))
            else:
                clear = den > 1e-6 * pop
                if is_ci:
                    clear = clear[..., None] & np.ones(2, dtype=bool)
                ok = bool(np.all(np.abs(v[clear] - exp[clear]) <= 1e-9))
        require(ok, "pc:value", lambda: f"{name}: {v.tolist()} vs {exp.tolist()}")
        ax = -2 if is_ci else -1
        # the flag as a literal, as the result of a NumPy comparison, as 1
        flag = {"True": True, "np.True_": np.bool_(True), "1": 1}[case.get("as_dict_kind", "True")]
        dct = getattr(c, name)(as_dict=flag, **kw)
        require(isinstance(dct, dict), "pc:as-dict-keys", f"{name}(as_dict={flag!r}) returned {type(dct).__name__}")
        require(len(dct) == K, "pc:as-dict-keys", name)
        for j, k in enumerate(cls):
            require(k in dct and np.array_equal(np.asarray(dct[k]), np.take(v, j, axis=ax),
                                                equal_nan=True),
                    "pc:as-dict", lambda: f"{name} class {k!r}")
        vp = np.asarray(getattr(cp, name)(**kw))
        if exact_sums:
            require(np.allclose(vp, np.take(v, perm, axis=ax), rtol=1e-12, atol=0, equal_nan=True),
                    "pc:equivariance", lambda: f"{name} perm {perm}")
    acc = np.asarray(c.accuracy(), dtype=float)
    require(acc.shape == lead, "pc:accuracy-shape", f"{acc.shape}")
    # one matrix of the stack, picked by indexing, answers like its slice of the stack
    if lead and 0 not in lead:
        sub = c[0]
        require(np.array_equal(sub.matrix, A_in[0]) and list(sub.classes) == list(c.classes), "pc:getitem", "c[0]")
        require(np.array_equal(np.asarray(sub.tpr()), np.asarray(c.tpr())[0], equal_nan=True)
                and np.array_equal(np.asarray(sub.accuracy()), acc[0], equal_nan=True), "pc:getitem",
                "metrics of c[0] differ from element 0 of the vectorised metrics")
    for b, M in enumerate(Af):
        total = sum(sum(r) for r in M)
        tr = sum(M[j][j] for j in range(K))
        got = float(acc.reshape(-1)[b])
        if total == 0:
            require(math.isnan(got), "pc:accuracy", f"pop 0 but {got!r}")
        else:
            require(abs(got - tr / total) <= 1e-12, "pc:accuracy", f"{got!r} vs {tr / total!r}")
    # the metrics do not depend on the overall scale of a float matrix
    if not exact_sums and A.size:
        c1 = ConfusionMatrix(matrix=A / case["scale"], classes=cls)
        pop = ref_ova.sum((-1, -2))
        for name in ("tnr", "tpr", "ppv", "npv", "class_accuracy"):
            den = _denominator(name, ref_ova)
            clear = den > 1e-6 * pop
            a_, b_ = np.asarray(getattr(c, name)()), np.asarray(getattr(c1, name)())
            require(bool(np.all(np.abs(a_[clear] - b_[clear]) <= 1e-9)), "pc:scale-dependence",
                    lambda: f"{name} changes when all entries are divided by {case['scale']}: "
                            f"{a_.tolist()} vs {b_.tolist()}")
    require(np.array_equal(A_in, A0), "ova:mutated-input", "")
    off = bool(np.any(A.sum((-1, -2)) - np.trace(A, axis1=-2, axis2=-1) != 0)) if A.size else False
    labels = [f"K:{K}", f"rank:{len(lead)}"] + (["size0-axis"] if 0 in lead else [])
    return dict(nontrivial=K >= 3 and off and perm != sorted(perm), labels=labels)


PROP = Prop(
    id="C05",
    rule=("Hypothesis: class sets of 2-6 ints (incl. negative) / strings (arbitrary unicode, '_', "
          "empty) / quarter floats; label/prediction sequences of length 0-40; weights none / ints / "
          "multiples of 0.25 (exact) / arbitrary positive floats (1e-9 rel); requested class order = "
          "random permutation or omitted (np.unique order expected); binary=True path; reference "
          "KxK matrices rendered as dict-of-dicts (independently shuffled insertion orders), "
          "DataFrame (independently permuted index/columns) and nested lists with/without a "
          "requested order; stacked matrices lead+(K,K), lead rank 0-2 incl. size-0 axes, int "
          "(to 1e6) or quarter-float entries. Oracle: dictionary counting; cell-wise one-vs-all "
          "sums; per-class metrics vs the binary metric on the reference one-vs-all, as_dict "
          "slices, permutation equivariance, accuracy = trace/pop. Non-trivial = >=3 classes, a "
          "non-identity order/permutation and an off-diagonal entry."),
    clauses=[
        Clause("from_predictions", check_pred, strategy=_pred_cases(), quick=500, thorough=5000, fuzz=20000,
               quick_shards=2, min_nontrivial=40, doc="entry [i,j] = total weight, class order"),
        Clause("many_classes", check_many, kind="enum", cases=_many_class_cases, quick_shards=4, shards=8,
               min_nontrivial=10, doc="12-300 (thorough: -1000) classes from labels / predictions"),
        Clause("renderings", check_render, strategy=_render_cases(), quick=300, thorough=3000,
               quick_shards=2, min_nontrivial=30, doc="dict / DataFrame / lists give one matrix"),
        Clause("one_vs_all", check_ova, strategy=_ova_cases(), quick=300, thorough=3000,
               quick_shards=2, min_nontrivial=30,
               doc="conservation, diag/row/col sums, per-class metrics, as_dict, equivariance"),
    ],
    assumptions=["per-class expected values use score_analysis.metrics on an independently built "
                 "one-vs-all array (the binary formulas themselves are C04's subject)",
                 "class names avoid NUL characters (NumPy strips trailing NULs from str arrays)"],
)

RULE_EXTRA = ("matrices stored as uint8 / int16 / int32 with entries up to the dtype maximum; clause many_classes: 12-300 (thorough: up to 1000) classes built from labels and predictions; float matrices scaled by 1e-11..1e12 with tolerances relative to the matrix's population; independence of rates from the overall scale. datetime64 / timedelta64 classes; hub matrices with inexact cells; a boolean mask on one side of from_predictions and 0/1 integers on the other. int64 weights whose totals need more than 53 bits.")
