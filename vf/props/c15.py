"""C15 - ROC curves are genuine operating points, ordered along the chosen x-axis."""

from __future__ import annotations

import numpy as np
from hypothesis import strategies as st

from .. import gen
from ..harness import Clause, Prop, Violation, require
from ..oracles import CONFIGS

X_AXES = ["fnr", "fpr", "tnr", "tpr", "far", "frr", "tar", "trr"]
VIEW = {"fnr": lambda c: c.fnr, "fpr": lambda c: c.fpr, "tnr": lambda c: 1.0 - c.fpr,
        "tpr": lambda c: 1.0 - c.fnr, "far": lambda c: c.fpr, "frr": lambda c: c.fnr,
        "tar": lambda c: 1.0 - c.fnr, "trr": lambda c: 1.0 - c.fpr}
DECREASING_FOR_POS = {"fpr", "tpr", "far", "tar"}


def _opt_list(elem, max_size=5):
    return st.one_of(st.none(), st.none(), st.lists(elem, min_size=0, max_size=max_size))


@st.composite
def _cases(draw, max_size=9):
    s = draw(gen.score_sets(min_pos=1, min_neg=1, max_size=max_size,
                            modes=("grid", "grid", "dyadic", "distinct", "int", "float", "uint"), mag=1e6))
    pops = [len(s["pos"]) + s["ep"], len(s["neg"]) + s["en"]]
    tgt = gen.target_values(pops)
    fnr = draw(_opt_list(tgt))
    fpr = draw(_opt_list(tgt))
    thr_n = draw(st.one_of(st.none(), st.none(), st.integers(0, 5)))
    thr = None if thr_n is None else draw(gen.threshold_values(s["pos"] + s["neg"], thr_n, allow_inf=True))
    nb = draw(st.sampled_from([None, 0, 1, 2, 3, 4, 7, 10, 25]))
    # narrow float dtypes for exactly representable score values
    f32 = draw(st.sampled_from([None, None, "float32", "float16", "longdouble"])) if s["mode"] in ("grid", "dyadic") else None
    nb_kind = draw(st.sampled_from(["py", "py", "int64", "int32", "uint16"]))
    if draw(st.integers(0, 9)) == 0:
        # a count held in a narrow NumPy integer type, at the very top of its range
        nb, nb_kind = draw(st.sampled_from([(255, "uint8"), (127, "int8"), (254, "uint8"), (126, "int8")]))
    return dict(s=s, fnr=fnr, fpr=fpr, thr=thr, nb=nb, dtype=f32, nb_kind=nb_kind)


def _mk(s, sc, ec, dtype=None):
    from score_analysis import Scores

    dt = int if s["mode"] == "int" else np.uint8 if s["mode"] == "uint" else (dtype or float)
    return Scores(np.asarray(s["pos"], dtype=dt), np.asarray(s["neg"], dtype=dt),
                  nb_easy_pos=s["ep"], nb_easy_neg=s["en"], score_class=sc, equal_class=ec)


def check(case):
    from score_analysis import roc

    s = case["s"]
    n, m = len(s["pos"]), len(s["neg"])
    fnr = None if case["fnr"] is None else np.asarray(case["fnr"], dtype=float)
    fpr = None if case["fpr"] is None else np.asarray(case["fpr"], dtype=float)
    thr = None if case["thr"] is None else np.asarray(case["thr"], dtype=float)
    nb = case["nb"]
    if nb is not None and case.get("nb_kind", "py") != "py":
        nb = np.dtype(case["nb_kind"]).type(nb)  # a count computed with NumPy (np.clip, np.minimum, a table cell)
    max_distinct = 0
    for sc, ec in CONFIGS:
        o = _mk(s, sc, ec, case.get("dtype"))
        sup = []
        if thr is not None:
            sup.append(thr)
        if fnr is not None:
            sup.append(np.asarray(o.threshold_at_fnr(fnr), dtype=float))
        if fpr is not None:
            sup.append(np.asarray(o.threshold_at_fpr(fpr), dtype=float))
        sup = np.concatenate(sup) if sup else np.zeros(0)
        for x_axis in X_AXES:
            ctx = f"config={sc}/{ec} x_axis={x_axis} fnr={case['fnr']} fpr={case['fpr']} thr={case['thr']} nb_points={nb}"
            a_fnr = None if fnr is None else fnr.copy()
            # the caller's threshold array: its own buffer, possibly read-only (a column of a frame
            # under copy-on-write, np.broadcast_to output)
            a_thr = None if thr is None else thr.copy()
            if a_thr is not None and x_axis in ("fpr", "tnr", "frr", "tar"):
                a_thr.setflags(write=False)
            c = roc(o, fnr=a_fnr, fpr=fpr, thresholds=a_thr, nb_points=nb, x_axis=x_axis)
            require(thr is None or np.array_equal(a_thr, thr, equal_nan=True), "roc:mutated-input",
                    lambda: f"{ctx}: the caller's threshold array was changed to {a_thr.tolist()}")
            t = np.asarray(c.thresholds, dtype=float)
            require(len(c.fnr) == len(c.fpr) == len(t) and t.ndim == 1, "roc:lengths",
                    f"{ctx}: {len(c.fnr)}, {len(c.fpr)}, {len(t)}")
            require(np.array_equal(np.asarray(c.fnr), np.asarray(o.fnr(t)), equal_nan=True)
                    and np.array_equal(np.asarray(c.fpr), np.asarray(o.fpr(t)), equal_nan=True),
                    "roc:rates-vs-thresholds",
                    lambda: f"{ctx}: curve rates differ from the object's rates at the curve's thresholds")
            xs = np.asarray(VIEW[x_axis](c), dtype=float)
            require(bool(np.all(np.diff(xs) >= 0)), "roc:x-not-monotone",
                    lambda: f"{ctx}: {x_axis} along the curve = {xs.tolist()} (thresholds {t.tolist()})")
            if len(sup) > 0:
                require(np.array_equal(np.sort(sup), np.sort(t)), "roc:supplied-points",
                        lambda: f"{ctx}: thresholds {np.sort(t).tolist()} != supplied/assigned "
                                f"{np.sort(sup).tolist()}")
            elif nb is None:
                allsc = np.sort(np.concatenate([o.pos, o.neg]).astype(float))
                require(np.array_equal(np.sort(t), allsc), "roc:all-scores",
                        lambda: f"{ctx}: {np.sort(t).tolist()} vs all scores {allsc.tolist()}")
            else:
                require(len(t) == nb, "roc:nb-points", f"{ctx}: {len(t)} points")
            # derived views
            require(np.array_equal(c.tpr, 1.0 - c.fnr) and np.array_equal(c.tnr, 1.0 - c.fpr)
                    and np.array_equal(c.frr, c.fnr) and np.array_equal(c.far, c.fpr)
                    and np.array_equal(c.tar, c.tpr) and np.array_equal(c.trr, c.tnr), "roc:views", ctx)
            require(c.fnr_ci is None and c.fpr_ci is None and c.tpr_ci is None and c.tnr_ci is None,
                    "roc:unexpected-ci", ctx)
            if fnr is not None:
                require(np.array_equal(a_fnr, fnr), "roc:mutated-input", ctx)
            max_distinct = max(max_distinct, len(set(t.tolist())))
            # a caller that edits a returned curve in place (percent axis, re-sorting) must not
            # affect the next call with the same arguments
            if a_thr is not None and np.shares_memory(np.asarray(c.thresholds), a_thr):
                # the curve holds the caller's own buffer: whoever writes to one changes the other
                raise Violation("roc:result-aliases-input",
                                f"{ctx}: the returned thresholds share memory with the supplied threshold array")
            if x_axis in ("fnr", "tar") and len(t) > 0:
                c.fnr *= 100.0
                c.fpr[...] = -1.0
                c.thresholds.sort()
                c2 = roc(o, fnr=None if fnr is None else fnr.copy(), fpr=fpr, thresholds=thr, nb_points=nb,
                         x_axis=x_axis)
                t2 = np.asarray(c2.thresholds, dtype=float)
                require(len(t2) == len(t)
                        and np.array_equal(np.asarray(c2.fnr), np.asarray(o.fnr(t2)), equal_nan=True)
                        and np.array_equal(np.asarray(c2.fpr), np.asarray(o.fpr(t2)), equal_nan=True)
                        and bool(np.all(np.diff(np.asarray(VIEW[x_axis](c2), dtype=float)) >= 0)),
                        "roc:second-call-after-editing-first-result",
                        lambda: f"{ctx}: after the caller edited the first curve in place, the same call "
                                f"returns fnr={np.asarray(c2.fnr).tolist()} thresholds={t2.tolist()}")
        try:
            roc(o, nb_points=nb, x_axis="auc")
            raise Violation("roc:unknown-axis-accepted", f"config={sc}/{ec}")
        except ValueError:
            pass
    labels = [f"nb:{nb}"] + (["supplied"] if (fnr is not None and len(fnr)) or (fpr is not None and len(fpr))
                             or (thr is not None and len(thr)) else ["nothing-supplied"])
    if s["ep"] or s["en"]:
        labels.append("easy")
    if case.get("dtype"):
        labels.append(f"dtype:{case['dtype']}")
    return dict(nontrivial=max_distinct >= 3, labels=labels)


# ------------------------------------------------------------------ long curves
def _long_cases(tier):
    lengths = [65536, 65537, 131073] if tier == "quick" else [65535, 65536, 65537, 65538, 131072, 131073, 196609, 300000]
    for L in lengths:
        for mode in ("nb_points", "thresholds", "all-scores"):
            for k, (sc, ec) in enumerate((("pos", "pos"), ("neg", "pos"))):
                yield dict(L=L, mode=mode, sc=sc, ec=ec, x_axis=("fpr", "fnr", "tar")[(L + k) % 3])


def check_long(case):
    """Curves with 65536 and more points (block sizes of an implementation are invisible in short ones)."""
    from score_analysis import Scores, roc

    L, mode, sc, ec = case["L"], case["mode"], case["sc"], case["ec"]
    if mode == "all-scores":
        pos = 0.5 + 2.0 * np.arange(L // 2)
        neg = 1.25 + 2.0 * np.arange(L - L // 2) - 100.0
        o = Scores(pos, neg, nb_easy_pos=2, score_class=sc, equal_class=ec, is_sorted=True)
        c = roc(o, nb_points=None, x_axis=case["x_axis"])
    else:
        pos = [0.25 * ((7 * i) % 40) for i in range(24)]
        neg = [0.25 * ((11 * i) % 40) - 2.0 for i in range(24)]
        o = Scores(pos, neg, nb_easy_neg=3, score_class=sc, equal_class=ec)
        if mode == "nb_points":
            c = roc(o, nb_points=L, x_axis=case["x_axis"])
        else:
            c = roc(o, thresholds=((np.arange(L) * 7919) % L) * (14.0 / L) - 3.0, x_axis=case["x_axis"])
    t = np.asarray(c.thresholds, dtype=float)
    ctx = f"{L} points ({mode}) config={sc}/{ec} x_axis={case['x_axis']}"
    require(len(t) == L and len(c.fnr) == L and len(c.fpr) == L, "roc:lengths", f"{ctx}: {len(t)}, {len(c.fnr)}, {len(c.fpr)}")
    bad = np.flatnonzero((np.asarray(c.fnr) != np.asarray(o.fnr(t))) | (np.asarray(c.fpr) != np.asarray(o.fpr(t))))
    require(bad.size == 0, "roc:rates-vs-thresholds",
            lambda: f"{ctx}: at point {int(bad[0])} (threshold {t[bad[0]]!r}) the curve has fnr={c.fnr[bad[0]]!r}, "
                    f"fpr={c.fpr[bad[0]]!r}; the object's rates there are {o.fnr(t[bad[0]])!r}, {o.fpr(t[bad[0]])!r}")
    xs = np.asarray(VIEW[case["x_axis"]](c), dtype=float)
    require(bool(np.all(np.diff(xs) >= 0)), "roc:x-not-monotone", ctx)
    return dict(nontrivial=True, labels=[f"L:{L}", mode])


PROP = Prop(
    id="C15",
    rule=("Hypothesis: score sets with both classes non-empty (ties, int dtype, tie-free, floats, "
          "easy counts 0..200), every combination of supplied fnr / fpr / thresholds (None, empty, "
          "1-5 values incl. out-of-range targets and thresholds at/next to scores) and nb_points in "
          "{None,0,1,2,3,4,7,10,25}; all 4 configs x all 8 x_axis names are enumerated inside each "
          "case. Oracle: equal lengths; curve FNR/FPR == the object's rates at the curve's "
          "thresholds (exact); the x_axis view is non-decreasing; sorted thresholds == sorted "
          "concat(user thresholds, threshold_at_fnr(fnr), threshold_at_fpr(fpr)); nothing supplied: "
          "exactly nb_points points or exactly the multiset of all scores; derived views are "
          "complements/aliases; unknown x_axis raises ValueError. Non-trivial = some curve of the "
          "case has >=3 distinct thresholds (score_class=neg and decreasing axes are always among "
          "the 32 curves of a case)."),
    clauses=[Clause("long_curves", check_long, kind="enum", cases=_long_cases, quick_shards=6, shards=12,
                    min_nontrivial=6, doc="curves of 65536-300000 points (grid, supplied thresholds, all scores)"),
             Clause("roc", check, strategy=lambda tier: _cases(9 if tier == "quick" else 30), quick=500, thorough=8000, quick_shards=8, fuzz=3000,
                    min_nontrivial=100, doc="roc(): rates, order, support, counts, views")],
)

RULE_EXTRA = ('nb_points as NumPy integers incl. np.uint8(255) / np.int8(127); clause long_curves; read-only threshold arrays; float32/float16 scores; +-inf user thresholds; the returned curve is edited in place and roc() called again. Results must not share memory with the threshold array of the caller.')
