"""C01 - confusion matrix at a threshold = counting by the documented decision rule."""

from __future__ import annotations

import itertools
import math

import numpy as np
from hypothesis import strategies as st

from .. import gen
from ..harness import Clause, Prop, require
from ..oracles import CONFIGS, METRICS, ref_cm, rate, ulp_step


def _arr(vals, mode):
    return np.asarray(vals, dtype=int if mode == "int" else float)


def _near(flat, scores):
    sc = set(float(x) for x in scores)
    for t in flat:
        if t in sc or ulp_step(t, 1) in sc or ulp_step(t, -1) in sc:
            return True
    return False


# ------------------------------------------------------------------ clause: cm_counts
@st.composite
def _cm_cases(draw, max_size=10):
    s = draw(gen.score_sets(max_size=max_size, mag=1e300, max_easy=1000, huge_easy=True,
                            modes=gen.ALL_MODES + ("uint",),
                            containers=("f64", "f64", "f32", "neg-int", "neg-f32", "pos-int", "f128", "series", "swapped")))
    thr = draw(gen.shaped_thresholds(s["pos"] + s["neg"], mag=1e300))
    f32 = draw(st.sampled_from([None, None, None, "float32", "float16"])) if s["mode"] in ("grid", "dyadic") else None
    return dict(s=s, thr=thr, sorted=draw(st.booleans()),
                via=draw(st.sampled_from(["ctor", "ctor", "labels", "labels", "lists", "swap-twice"])), dtype=f32,
                label_kind=draw(st.sampled_from(["int", "float-ids", "float-tiny", "str", "bool", "str-none", "float-nan"])),
                flag_kind=draw(st.sampled_from(["py", "py", "np", "int"])),
                thr_as=draw(st.sampled_from(["array", "array", "list", "F", "f32", "f16", "int"])))


def _build(case, sc, ec):
    from score_analysis import Scores

    s = case["s"]
    pos, neg = gen.build_scores(s, "pos"), gen.build_scores(s, "neg")
    if case.get("dtype") and s.get("container", "f64") == "f64":
        pos, neg = pos.astype(case["dtype"]), neg.astype(case["dtype"])
    kw = dict(nb_easy_pos=s["ep"], nb_easy_neg=s["en"], score_class=sc, equal_class=ec)
    if case.get("via") == "lists" and s["mode"] != "uint":
        return Scores(list(s["pos"]), list(s["neg"]), **kw)
    if case.get("via") == "labels":
        pl_, nl_ = {"int": (1, 0), "float-ids": (20230001.0, 20230002.0), "float-tiny": (0.0, 1e-9),
                    "str": ("genuine", "impostor"), "bool": (True, False),
                    # un-annotated rows: every label other than pos_label is a negative label
                    "str-none": ("genuine", None), "float-nan": (1.0, float("nan"))}[case.get("label_kind", "int")]
        labels = np.asarray([pl_] * len(pos) + [nl_] * len(neg),
                            dtype=object if nl_ is None else None) if len(pos) + len(neg) else np.zeros(0, dtype=int)
        allv = np.concatenate([pos, neg])
        perm = np.argsort(np.sin(np.arange(len(allv)) * 12.9898), kind="stable")
        la, sa = labels[perm], allv[perm]
        kw = dict(kw, pos_label=pl_)
        if s.get("container") == "series":  # two columns of one frame with a non-positional index
            import pandas as pd

            idx = list(range(len(la)))[::-1]
            la, sa = pd.Series(la, index=idx), pd.Series(sa, index=idx)
        return Scores.from_labels(la, sa, **kw)
    # the is_sorted flag as a literal, as a NumPy bool (np.all(np.diff(x) >= 0)) or as 0 / 1
    fk = case.get("flag_kind", "py")
    flag = (lambda b: {"py": b, "np": np.bool_(b), "int": int(b)}[fk])
    if case.get("sorted"):
        return Scores(np.sort(pos), np.sort(neg), is_sorted=flag(True), **kw)
    if fk != "py" and case.get("via") == "ctor":
        return Scores(pos, neg, is_sorted=flag(False), **kw)
    if case.get("via") == "swap-twice":  # an object handed out by the library
        return Scores(pos, neg, **kw).swap().swap()
    return Scores(pos, neg, **kw)


def check_cm(case):
    s = case["s"]
    shape = tuple(case["thr"]["shape"])
    flat = case["thr"]["flat"]
    thr = gen.np_array(flat, shape)
    if case.get("thr_as") in ("f32", "f16"):
        # thresholds held in a narrow float dtype: the decision rule applies to the values they hold
        with np.errstate(over="ignore"):
            thr = thr.astype(np.float32 if case["thr_as"] == "f32" else np.float16)
        flat = [float(x) for x in thr.reshape(-1).tolist()]
    if case.get("thr_as") == "int" and flat and all(math.isfinite(t) and t == int(t) and abs(t) < 2**62 for t in flat):
        thr = thr.astype(np.int64)  # integral thresholds held as integers
    if case.get("thr_as") == "list" and 0 not in shape:  # nested lists cannot carry size-0 axes
        thr = thr.tolist()
    elif case.get("thr_as") == "F" and len(shape) >= 2:
        thr = np.asfortranarray(thr)
    pos, neg = s["pos"], s["neg"]
    ep, en = s["ep"], s["en"]
    for sc, ec in CONFIGS:
        obj = _build(case, sc, ec)
        got = obj.cm(thr).matrix
        require(got.shape == shape + (2, 2), "cm:shape", f"{got.shape} for thresholds {shape}")
        # a threshold sweep: the matrix handed out above is checked *after* the object has answered
        # another query of the same shape
        if got.size:
            with np.errstate(over="ignore", invalid="ignore"):
                obj.cm(np.flip(np.asarray(thr, dtype=float)) + 0.5)
        gf = got.reshape(-1, 2, 2)
        for i, t in enumerate(flat):
            ref = ref_cm(pos, neg, t, sc, ec, ep, en)
            g = (int(gf[i, 0, 0]), int(gf[i, 0, 1]), int(gf[i, 1, 0]), int(gf[i, 1, 1]))
            require(g == ref, "cm:count",
                    lambda: f"config={sc}/{ec} t={t!r} got tp,fn,fp,tn={g} expected {ref}")
            require(g[0] + g[1] == len(pos) + ep and g[2] + g[3] == len(neg) + en,
                    "cm:rowsum", f"{g}")
        # the six rate methods agree with the counted ratios (NaN iff class empty)
        for m in METRICS:
            r = np.asarray(getattr(obj, m)(thr), dtype=float)
            require(r.shape == shape, "cm:rate-shape", f"{m}: {r.shape} vs {shape}")
            rf = r.reshape(-1)
            for i, t in enumerate(flat):
                e = rate(m, ref_cm(pos, neg, t, sc, ec, ep, en))
                ok = (math.isnan(e) and math.isnan(rf[i])) or e == rf[i]
                require(ok, "cm:rate", lambda: f"{m} config={sc}/{ec} t={t!r} got {rf[i]!r} "
                                               f"expected {e!r}")
    nontrivial = bool(pos) and bool(neg) and _near(flat, pos + neg)
    labels = [f"mode:{s['mode']}", f"arr:{s['arr']}", f"rank:{len(shape)}", f"via:{case.get('via')}"]
    if case.get("dtype"):
        labels.append(f"dtype:{case['dtype']}")
    if 0 in shape:
        labels.append("size0-axis")
    if ep or en:
        labels.append("easy")
    if not pos or not neg:
        labels.append("empty-class")
    if set(map(float, pos)) & set(map(float, neg)):
        labels.append("cross-tie")
    if any(math.isinf(t) for t in flat):
        labels.append("inf-threshold")
    return dict(nontrivial=nontrivial, labels=labels)


# ------------------------------------------------------------------ clause: pointwise
@st.composite
def _pw_cases(draw):
    s = draw(gen.score_sets(max_size=8, mag=1e300, easy=False))
    thr = draw(gen.shaped_thresholds(s["pos"] + s["neg"], shapes=gen.SHAPES_NONEMPTY, mag=1e300))
    lab = draw(st.sampled_from(["int", "str", "bool", "boolF", "bool0", "int52", "float", "float-ids", "float-tiny",
                                "str-none", "float-nan"]))
    return dict(s=s, thr=thr, lab=lab, order=draw(st.integers(0, 10**6)),
                layout=draw(st.sampled_from(["1d", "1d", "2d-C", "2d-F-scores", "2d-F-labels", "2d-T-scores", "2d-F-both"])))


def check_pointwise(case):
    from score_analysis import pointwise_cm

    s = case["s"]
    pos, neg = s["pos"], s["neg"]
    n, m = len(pos), len(neg)
    shape = tuple(case["thr"]["shape"])
    flat = case["thr"]["flat"]
    thr = gen.np_array(flat, shape)
    pl, nl, kw = {"int": (1, 0, {}), "str": ("y", "n", dict(pos_label="y")),
                  "bool": (True, False, dict(pos_label=True)),
                  # the positive label is whatever the caller says it is
                  "boolF": (False, True, dict(pos_label=False)), "bool0": (False, True, dict(pos_label=0)),
                  "int52": (5, 2, dict(pos_label=5)), "float": (0.0, 1.0, dict(pos_label=0.0)),
                  # labels that are different numbers, however close (ids read as floats; 0 vs 1e-9)
                  "float-ids": (20230001.0, 20230002.0, dict(pos_label=20230001.0)),
                  "float-tiny": (0.0, 1e-9, dict(pos_label=0)),
                  "str-none": ("y", None, dict(pos_label="y")), "float-nan": (1.0, float("nan"), dict(pos_label=1.0))}[case["lab"]]
    labels = [pl] * n + [nl] * m
    scores = list(pos) + list(neg)
    order = np.random.RandomState(case["order"]).permutation(n + m)
    labels_a = (np.asarray([labels[i] for i in order], dtype=object if nl is None else None)
                if n + m else np.asarray([], dtype=int))
    scores_a = _arr([scores[i] for i in order], s["mode"])
    # labels and scores as matrices (one row per session, say) whose memory layouts may differ:
    # element [i, j] of the labels belongs to element [i, j] of the scores
    layout = case.get("layout", "1d")
    rows = 2 if (n + m) % 2 == 0 else 3 if (n + m) % 3 == 0 else 0
    sample_shape = (n + m,)
    if layout != "1d" and rows and n + m >= 4:
        sample_shape = (rows, (n + m) // rows)
        labels_a, scores_a = labels_a.reshape(sample_shape), scores_a.reshape(sample_shape)
        if layout in ("2d-F-scores", "2d-F-both"):
            scores_a = np.asfortranarray(scores_a)
        if layout in ("2d-F-labels", "2d-F-both"):
            labels_a = np.asfortranarray(labels_a)
        if layout == "2d-T-scores":
            scores_a = np.ascontiguousarray(scores_a.T).T  # a transposed view
    else:
        layout = "1d"
    for sc, ec in CONFIGS:
        pw = pointwise_cm(labels_a, scores_a, thr, score_class=sc, equal_class=ec, **kw)
        require(pw.shape == sample_shape + shape + (2, 2), "pw:shape", f"{pw.shape}")
        pw = pw.reshape((n + m,) + shape + (2, 2))
        require(pw.dtype == bool, "pw:dtype", str(pw.dtype))
        summed = pw.sum(axis=0).reshape(-1, 2, 2)
        for i, t in enumerate(flat):
            ref = ref_cm(pos, neg, t, sc, ec)
            g = tuple(int(x) for x in summed[i].reshape(-1))
            require(g == ref, "pw:sum", lambda: f"config={sc}/{ec} t={t!r} got {g} expected {ref}")
        require(bool(np.all(pw.sum(axis=(-1, -2)) == 1)), "pw:one-cell",
                "a sample is in !=1 cells")
        # per-sample membership
        pwf = pw.reshape(n + m, len(flat), 2, 2)
        for k, idx in enumerate(order):
            is_pos = idx < n
            for i, t in enumerate(flat):
                from ..oracles import predicted_positive

                pp = predicted_positive(scores[idx], t, sc, ec)
                cell = (0 if is_pos else 1, 0 if pp else 1)
                require(bool(pwf[k, i][cell]), "pw:cell",
                        lambda: f"sample {scores[idx]!r} pos={is_pos} t={t!r} {sc}/{ec}")
    nontrivial = bool(pos) and bool(neg) and _near(flat, scores)
    return dict(nontrivial=nontrivial, labels=[f"lab:{case['lab']}", f"layout:{layout}"])


# ------------------------------------------------------------------ clause: big_integers
_BASES = [2**53, 2**53 + 2**20, 2**60, 1_700_000_000_000_000_000, -(2**62), 2**63 - 8, -(2**63) + 8, 2**31, 10**15]


@st.composite
def _big_cases(draw):
    """Integer scores (fixed-point values, time stamps, ids) beyond the exact range of float64,
    neighbours 1 apart, with integer thresholds at and next to the scores."""
    base = draw(st.sampled_from(_BASES))
    n, m = draw(st.integers(0, 6)), draw(st.integers(0, 6))
    offs = draw(st.lists(st.integers(-4, 4), min_size=n + m, max_size=n + m))
    vals = [base + o for o in offs]
    k = draw(st.integers(1, 6))
    thr = [base + o for o in draw(st.lists(st.integers(-5, 5), min_size=k, max_size=k))]
    shards = draw(st.booleans())
    if shards:
        # two sorted shards appended: every out-of-order step spans more than half of the int64 range
        hi_, lo_ = 2**62 + 2**61, -(2**62) - 2**61
        pv = sorted(hi_ + o for o in offs[:n // 2]) + sorted(lo_ + o for o in offs[n // 2:n])
        nv = sorted(hi_ + o for o in offs[n:n + m // 2]) + sorted(lo_ + o for o in offs[n + m // 2:])
        vals = pv + nv
        thr = [b_ + o for b_, o in zip([hi_, lo_] * 3, draw(st.lists(st.integers(-5, 5), min_size=k, max_size=k)))]
        base = -1  # int64 only
    ez = st.sampled_from([0, 0, 3])
    return dict(pos=vals[:n], neg=vals[n:], thr=thr, ep=draw(ez), en=draw(ez),
                dtype=draw(st.sampled_from(["int64", "int64", "uint64"])) if base > 0 else "int64",
                scalar=draw(st.integers(0, k - 1)))


def check_big(case):
    from score_analysis import Scores

    pos, neg, ep, en = case["pos"], case["neg"], case["ep"], case["en"]
    dt = np.dtype(case["dtype"])
    thr = np.asarray(case["thr"], dtype=dt)
    for sc, ec in CONFIGS:
        obj = Scores(np.asarray(pos, dtype=dt), np.asarray(neg, dtype=dt), nb_easy_pos=ep, nb_easy_neg=en,
                     score_class=sc, equal_class=ec)
        got = obj.cm(thr).matrix
        for i, t in enumerate(case["thr"]):
            ref = ref_cm(pos, neg, t, sc, ec, ep, en)  # Python integers: exact
            g = tuple(int(x) for x in got[i].reshape(-1))
            require(g == ref, "cm:count",
                    lambda: f"config={sc}/{ec} {case['dtype']} scores pos={pos} neg={neg}, integer threshold {t}: "
                            f"got tp,fn,fp,tn={g} expected {ref}")
        if case["dtype"] == "uint64":
            continue  # NumPy compares uint64 with a (signed) Python int through float64: not exact, not claimed
        t = case["thr"][case["scalar"]]
        g = tuple(int(x) for x in obj.cm(t).matrix.reshape(-1))  # a Python int
        ref = ref_cm(pos, neg, t, sc, ec, ep, en)
        require(g == ref, "cm:count", lambda: f"config={sc}/{ec} Python-int threshold {t}: got {g} expected {ref}")
    near = any(abs(t - v) <= 1 for t in case["thr"] for v in pos + neg)
    return dict(nontrivial=bool(pos) and bool(neg) and near, labels=[f"dtype:{case['dtype']}"])


# ------------------------------------------------------------------ clause: pointwise_large
def _pw_large_cases(tier):
    """Calls with more than 2^24 (score, threshold) pairs, threshold counts next to 2^24 // n_scores."""
    combos = [(5000, 3356), (4096, 4097), (8192, 2049)] if tier == "quick" else \
        [(5000, 3356), (4096, 4097), (8192, 2049), (5000, 3355), (4096, 4096), (3000, 5594), (3000, 5593), (16384, 1025)]
    for k, (x, y) in enumerate(combos):
        yield dict(x=x, y=y, cfg=CONFIGS[k % 4])


def check_pw_large(case):
    from score_analysis import pointwise_cm

    x, y = case["x"], case["y"]
    sc, ec = case["cfg"]
    scores = ((np.arange(x) * 7919) % 1009) / 16.0          # ties, arbitrary order
    labels = ((np.arange(x) * 31) % 7 < 3).astype(int)
    thr = ((np.arange(y) * 104729) % 1013) / 16.0 - 0.03125  # some equal to scores, some between
    pw = pointwise_cm(labels, scores, thr, score_class=sc, equal_class=ec)
    require(pw.shape == (x, y, 2, 2), "pw:shape", f"{pw.shape}")
    one = pw.sum(axis=(-1, -2))
    bad = np.argwhere(one != 1)
    require(bad.size == 0, "pw:one-cell",
            lambda: f"{x} scores x {y} thresholds, config={sc}/{ec}: sample {int(bad[0][0])} is in {int(one[tuple(bad[0])])} "
                    f"cells at threshold #{int(bad[0][1])} ({len(bad)} such pairs)")
    # counting reference: predicted positive by the documented rule
    s_ = scores[:, None]
    t_ = thr[None, :]
    if sc == "pos":
        pp = (s_ >= t_) if ec == "pos" else (s_ > t_)
    else:
        pp = (s_ <= t_) if ec == "pos" else (s_ < t_)
    pos = (labels == 1)[:, None]
    ref = np.stack([np.stack([(pos & pp).sum(0), (pos & ~pp).sum(0)], -1), np.stack([(~pos & pp).sum(0), (~pos & ~pp).sum(0)], -1)], -2)
    got = pw.sum(axis=0)
    badc = np.argwhere((got != ref).any(axis=(-1, -2)))
    require(badc.size == 0, "pw:sum",
            lambda: f"{x} scores x {y} thresholds, config={sc}/{ec}: at threshold #{int(badc[0][0])} the membership array sums to "
                    f"{got[badc[0][0]].tolist()}, counting gives {ref[badc[0][0]].tolist()}")
    return dict(nontrivial=True, labels=[f"pairs:{x * y}"])


# ------------------------------------------------------------------ clause: enum_small
_VALS = [0.0, 1.0, 2.0]


def _enum_thresholds():
    out = []
    for k in range(-1, 6):
        t = k / 2
        out += [t, ulp_step(t, 1), ulp_step(t, -1)]
    return out + [math.inf, -math.inf]


def _enum_cases(tier):
    kmax = 2 if tier == "quick" else 3
    thr = _enum_thresholds()
    msets = []
    for k in range(kmax + 1):
        msets += [list(c) for c in itertools.combinations_with_replacement(_VALS, k)]
    for pos in msets:
        for neg in msets:
            for ep, en in ((0, 0), (2, 3)):
                yield dict(pos=pos, neg=neg, ep=ep, en=en, thr=thr)


def check_enum(case):
    from score_analysis import Scores

    pos, neg, ep, en = case["pos"], case["neg"], case["ep"], case["en"]
    thr = np.asarray(case["thr"], dtype=float)
    for sc, ec in CONFIGS:
        # unsorted input order: reversed
        got = Scores(pos[::-1], neg[::-1], nb_easy_pos=ep, nb_easy_neg=en, score_class=sc,
                     equal_class=ec).cm(thr).matrix
        for i, t in enumerate(case["thr"]):
            ref = ref_cm(pos, neg, t, sc, ec, ep, en)
            g = tuple(int(x) for x in got[i].reshape(-1))
            require(g == ref, "cm:count", lambda: f"enum config={sc}/{ec} t={t!r} got {g} "
                                                  f"expected {ref}")
    return dict(nontrivial=bool(pos) and bool(neg), labels=["enum"])


def _narrow_cases(tier):
    for dt in ("int8", "uint8", "int16", "uint16", "int32", "uint32"):
        for ep, en in ((0, 0), (3, 5)):
            for thr_as in ("float", "int64", "scalar"):
                yield dict(dt=dt, ep=ep, en=en, thr_as=thr_as)


def check_narrow(case):
    """Scores in a narrow integer dtype that include both ends of the dtype's range, thresholds (held as
    floats or 64-bit integers) at, next to and far beyond those ends (round 10, c01-s)."""
    from score_analysis import Scores

    dt, ep, en = np.dtype(case["dt"]), case["ep"], case["en"]
    lo, hi = int(np.iinfo(dt).min), int(np.iinfo(dt).max)
    mid = (lo + hi) // 2
    pos = [hi, hi, mid, lo, hi - 1]
    neg = [lo, lo + 1, mid, hi, mid + 1]
    if case["thr_as"] == "int64":
        flat = [lo - 1, lo, lo + 1, mid, hi - 1, hi, hi + 1, hi + 1000, lo - 1000, 2**40, -(2**40)]
        thr = np.asarray(flat, dtype=np.int64)
    else:
        flat = [lo - 1.0, lo - 0.5, float(lo), lo + 0.5, mid + 0.5, hi - 0.5, float(hi), hi + 0.5, hi + 1.0,
                1e9 * 7, -1e9 * 7, 1e300, -1e300, math.inf, -math.inf]
        thr = np.asarray(flat, dtype=float)
    for sc, ec in CONFIGS:
        obj = Scores(np.asarray(pos, dtype=dt), np.asarray(neg, dtype=dt), nb_easy_pos=ep, nb_easy_neg=en,
                     score_class=sc, equal_class=ec)
        if case["thr_as"] == "scalar":
            got = [obj.cm(t).matrix for t in flat]
        else:
            got = obj.cm(thr).matrix
        for i, t in enumerate(flat):
            ref = ref_cm(pos, neg, t, sc, ec, ep, en)
            g = tuple(int(x) for x in np.asarray(got[i]).reshape(-1))
            require(g == ref, "cm:count", lambda: f"{dt} scores pos={pos} neg={neg} config={sc}/{ec} easy=({ep},{en}) "
                                                  f"t={t!r} ({case['thr_as']}) got tp,fn,fp,tn={g} expected {ref}")
    return dict(nontrivial=True, labels=[f"dtype:{dt}", f"thr:{case['thr_as']}"])


PROP = Prop(
    id="C01",
    rule=("Hypothesis-generated score sets (value modes grid/dyadic/float up to 1e300/"
          "ulp-cluster/int-dtype/distinct; arrangements mixed/separated/inverted/boundary-tie/"
          "shared values; empty classes; easy counts 0..1000; unsorted, is_sorted=True and "
          "from_labels construction) x thresholds (scores, +-1ulp, midpoints, outside, +-inf, "
          "arbitrary) in shapes 0-d..3-d incl. size-0 axes, all 4 configs per case; plus complete "
          "enumeration of all multisets of <=2 (quick) / <=3 (thorough) positives and negatives "
          "over {0,1,2} x 23 thresholds x 4 configs x 2 easy settings. Oracle: counting with "
          "Python comparison operators. Non-trivial = both classes non-empty and some threshold "
          "equal to, or one ulp from, a score; distinct = distinct canonical case JSON."),
    clauses=[
        Clause("cm_counts", check_cm, strategy=lambda tier: _cm_cases(10 if tier == "quick" else 40), quick=700, thorough=16000,
               min_nontrivial=50, doc="Scores.cm and the six rates vs counting"),
        Clause("pointwise", check_pointwise, strategy=_pw_cases(), quick=400, thorough=8000,
               min_nontrivial=30, doc="pointwise_cm membership and its sum over samples"),
        Clause("big_integers", check_big, strategy=_big_cases(), quick=150, thorough=3000, quick_shards=2,
               min_nontrivial=50, doc="int64/uint64 scores beyond 2^53 with integer thresholds"),
        Clause("pointwise_large", check_pw_large, kind="enum", cases=_pw_large_cases, quick_shards=3, shards=8,
               min_nontrivial=3, doc="pointwise_cm calls with 1.68e7 (score, threshold) pairs"),
        Clause("narrow_ends", check_narrow, kind="enum", cases=_narrow_cases, quick_shards=4, shards=4,
               min_nontrivial=30, doc="narrow-integer scores at both ends of the dtype, thresholds at / beyond the ends"),
        Clause("enum_small", check_enum, kind="enum", cases=_enum_cases, shards=16,
               quick_shards=2, min_nontrivial=10,
               doc="all order types of small score sets (exhaustive)"),
    ],
    assumptions=["int-dtype scores are small integers (exact in float64) except in clause big_integers, where scores and thresholds are both integers and compared exactly",
                 "pointwise_cm with size-0 threshold axes is exercised under C10"],
)

RULE_EXTRA = ('clause narrow_ends: int8..uint32 scores holding both ends of the dtype against float / int64 thresholds at, half a unit from and far beyond the ends (incl. +-inf); int64 / uint64 scores of magnitude 2^53..2^63 one unit apart with integer thresholds (array and Python int); pointwise_cm on 2-D label / score arrays of differing memory layout; score containers float64 / float32 / float16 / Python lists / one class int or float32 next to a float64 class / uint8-uint16-bool quantised scores; easy counts up to 2^40; thresholds as nested lists, Fortran-ordered arrays and float32/float16 arrays. Score arrays in non-native byte order; missing labels (None / NaN); clause pointwise_large (1.7e7 label-prediction pairs).')
