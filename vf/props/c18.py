"""C18 - showbias reports per group the metric of exactly that group's rows, on one scale."""

from __future__ import annotations

import math

import numpy as np
from hypothesis import strategies as st

from .. import gen
from ..harness import Clause, Prop, require
from ..oracles import ref_cm

METRICS = ["tp", "tn", "fp", "fn", "p", "n", "top", "ton", "pop", "tpr", "tnr", "fpr", "fnr", "tar",
           "frr", "trr", "far", "topr", "tonr", "acceptance_rate", "rejection_rate", "ppv", "npv",
           "fdr", "for_", "accuracy", "error_rate", "class_accuracy", "class_error_rate",
           "tpr_ci", "fnr_ci", "tnr_ci", "fpr_ci", "frr_ci", "far_ci"]
RATE_METRICS = ["fnr", "fpr", "tpr", "tnr", "ppv", "npv", "accuracy", "topr", "fdr"]
ALPHABET = ["a", "b", "zz", "a_b", "b_c", "c", "_", "x_", "Q r", "\u00e9", "a_", "B",
            # different strings that look alike (canonically equivalent Unicode, different case, padding)
            "e\u0301", "Jos\u00e9", "Jose\u0301", "\u00c5", "\u212b", "b ", " b", "A", ""]
POS_LABELS = [(1, 0), (0, 1), ("yes", "no"), (7, 3),
              # 64-bit ids that no float64 tells apart (next to a float score column)
              (2**53 + 1, 2**53), (2**53 + 2, 2**53 + 3)]
CI_METHODS = ["quantile", "bc", "bca"]


@st.composite
def _frames(draw, max_rows=14, distinct_scores=False, min_per_class=0):
    ncols = draw(st.sampled_from([1, 1, 2]))
    G = draw(st.integers(1, 4))
    val = st.sampled_from(ALPHABET)
    keys = draw(st.lists(st.tuples(*[val] * ncols), min_size=G, max_size=G, unique=True))
    n = draw(st.integers(max(G, 2) if min_per_class else G, max_rows))
    # at least one row per group, the rest at random
    assign = list(range(G)) + draw(st.lists(st.integers(0, G - 1), min_size=n - G, max_size=n - G))
    assign = draw(st.permutations(assign))
    lab = draw(st.lists(st.booleans(), min_size=n, max_size=n))
    if min_per_class:
        lab[0], lab[-1] = True, False
    if distinct_scores:
        ks = draw(st.lists(st.integers(0, 60), min_size=n, max_size=n, unique=True))
    else:
        ks = draw(st.lists(st.integers(0, 10), min_size=n, max_size=n))
    scores = [k / 10 for k in ks]
    pl = draw(st.integers(0, len(POS_LABELS) - 1))
    sc, ec = draw(gen.CONFIG)
    return dict(ncols=ncols, keys=[list(k) for k in keys], assign=list(assign), lab=lab, scores=scores,
                pl=pl, sc=sc, ec=ec, index_seed=draw(st.integers(0, 10**6)),
                frame_cols_reversed=draw(st.booleans()), index_offset=draw(st.sampled_from([100, 0, 0])),
                index_name=draw(st.sampled_from([None, None, "g1", "g2", "y", "s", "junk"])),
                # rows with missing values in columns the call never reads
                gaps=draw(st.one_of(st.none(), st.lists(st.booleans(), min_size=n, max_size=n))),
                score_dtype=draw(st.sampled_from(["float", "float", "float", "uint8", "float32"])))


def _thresholds():
    tv = st.one_of(st.integers(-1, 11).map(lambda k: k / 10), st.sampled_from([0.05, 0.55, 0.5]))
    return st.one_of(
        st.tuples(st.just("scalar"), tv.map(lambda t: [t])),
        st.tuples(st.just("list"), st.lists(tv, min_size=1, max_size=4)),
        st.tuples(st.just("array"), st.lists(tv, min_size=1, max_size=4)),
    )


def build_frame(fr):
    import pandas as pd

    pos_l, neg_l = POS_LABELS[fr["pl"]]
    n = len(fr["assign"])
    cols = {}
    names = ["g1", "g2"][: fr["ncols"]]
    for c, name in enumerate(names):
        cols[name] = [fr["keys"][g][c] for g in fr["assign"]]
    data = dict(junk=list(range(n)))
    # the frame may hold the group columns in another order than the one they are requested in
    for name in (reversed(names) if fr.get("frame_cols_reversed") else names):
        data[name] = cols[name]
    data["y"] = [pos_l if b else neg_l for b in fr["lab"]]
    data["other"] = ["u"] * n
    if fr.get("gaps"):
        data["gaps"] = [float("nan") if m else 1.5 for m in fr["gaps"]]
        data["note"] = [None if m else "x" for m in reversed(fr["gaps"])]
    if fr.get("score_dtype") == "uint8":   # scores quantised to integers 0..10 (tenths)
        data["s"] = np.asarray([int(round(v * 10)) for v in fr["scores"]], dtype=np.uint8)
    elif fr.get("score_dtype") == "float32":
        data["s"] = np.asarray(fr["scores"], dtype=np.float32)
    else:
        data["s"] = fr["scores"]
    idx = np.random.RandomState(fr["index_seed"]).permutation(n) + fr.get("index_offset", 100)  # offset 0: labels are a permutation of the positions
    df = pd.DataFrame(data, index=idx)
    if fr.get("index_name"):
        df.index.name = fr["index_name"]  # a row index that happens to be named like a column
    group_columns = names if fr["ncols"] > 1 else names[0]
    return df, group_columns, pos_l


def group_rows(fr):
    """key (str or tuple) -> list of row positions."""
    out = {}
    for i, g in enumerate(fr["assign"]):
        k = tuple(fr["keys"][g]) if fr["ncols"] > 1 else fr["keys"][g][0]
        out.setdefault(k, []).append(i)
    return out


def stored_score(fr, i):
    """The value the score column actually holds for row i (see build_frame)."""
    v = fr["scores"][i]
    if fr.get("score_dtype") == "uint8":
        return float(int(round(v * 10)))
    if fr.get("score_dtype") == "float32":
        return float(np.float32(v))
    return v


def ref_metric(fr, rows, t, metric):
    from score_analysis import ConfusionMatrix

    pos = [stored_score(fr, i) for i in rows if fr["lab"][i]]
    neg = [stored_score(fr, i) for i in rows if not fr["lab"][i]]
    tp, fn, fp, tn = ref_cm(pos, neg, t, fr["sc"], fr["ec"])
    if ":" in metric:  # one bound of an interval-valued metric, e.g. "fnr_ci:0"
        name, b = metric.split(":")
        return float(getattr(ConfusionMatrix(matrix=[[tp, fn], [fp, tn]], binary=True), name)()[int(b)])
    return float(getattr(ConfusionMatrix(matrix=[[tp, fn], [fp, tn]], binary=True), metric)())


def ref_table(fr, thr, metric, normalize, groups=None):
    """(keys, raw values, normalised values, mask of thresholds where normalisation is defined)."""
    groups = groups or group_rows(fr)
    keys = sorted(groups)
    raw = np.array([[ref_metric(fr, groups[k], t, metric) for t in thr] for k in keys], dtype=float)
    allrows = list(range(len(fr["assign"])))
    defined = np.ones(len(thr), dtype=bool)
    out = raw.copy()
    if normalize == "by_overall":
        ov = np.array([ref_metric(fr, allrows, t, metric) for t in thr])
        defined = np.isfinite(ov)
        for j in range(len(thr)):
            if defined[j] and ov[j] != 0:
                out[:, j] = raw[:, j] / ov[j]
    elif normalize == "by_min":
        defined = np.all(np.isfinite(raw), axis=0)
        for j in range(len(thr)):
            if defined[j]:
                mn = raw[:, j].min()
                if mn != 0:
                    out[:, j] = raw[:, j] / mn
    return keys, raw, out, defined


def _call(fr, thr_kind, thr, metric, normalize, **kw):
    from score_analysis import showbias

    df, group_columns, pos_l = build_frame(fr)
    before = df.copy()
    t_arg = thr[0] if thr_kind == "scalar" else (list(thr) if thr_kind == "list" else np.asarray(thr, dtype=float))
    r = showbias(df, group_columns, "y", "s", metric, normalize=normalize, pos_label=pos_l,
                 score_class=fr["sc"], equal_class=fr["ec"], threshold=t_arg, **kw)
    require(df.equals(before), "bias:mutated-input", "the input frame was modified")
    return r


def _check_labels(frame, keys, thr, ctx, what="values"):
    idx = [tuple(x) if isinstance(x, (tuple, list)) else x for x in frame.index.tolist()]
    require(len(idx) == len(set(idx)) and set(idx) == set(keys), "bias:row-labels",
            f"{ctx}: {what} rows labelled {idx}, groups present are {sorted(keys)}")
    cols = np.asarray(frame.columns, dtype=float)
    require(np.array_equal(cols, np.asarray(thr, dtype=float)), "bias:column-labels",
            f"{ctx}: {what} columns {cols.tolist()} vs thresholds {list(thr)}")
    return idx


def _compare(frame, keys, expected, mask, ctx, sig, what="values"):
    idx = _check_labels(frame, keys, ctx.get("thr"), ctx["txt"], what)
    got = frame.to_numpy(dtype=float)
    pos = {k: i for i, k in enumerate(idx)}
    for a, k in enumerate(keys):
        for j in range(expected.shape[1]):
            if not mask[j]:
                continue
            g, e = got[pos[k], j], expected[a, j]
            ok = (math.isnan(g) and math.isnan(e)) or (not math.isnan(g) and not math.isnan(e)
                                                       and abs(g - e) <= 1e-12 * max(1.0, abs(e)))
            require(ok, sig, lambda: f"{ctx['txt']}: {what} for group {k!r} at threshold {ctx['thr'][j]!r} "
                                     f"is {g!r}, expected {e!r}")


# ------------------------------------------------------------------------ clause: values
@st.composite
def _value_cases(draw):
    fr = draw(_frames())
    kind, thr = draw(_thresholds())
    return dict(fr=fr, thr_kind=kind, thr=thr, metric=draw(st.sampled_from(METRICS)),
                normalize=draw(st.sampled_from([None, None, "by_overall", "by_min"])))


def check_values(case):
    fr, thr, metric, normalize = case["fr"], case["thr"], case["metric"], case["normalize"]
    ctx = dict(txt=f"metric={metric} normalize={normalize} config={fr['sc']}/{fr['ec']} "
                   f"group values={fr['keys']} pos_label={POS_LABELS[fr['pl']][0]!r}", thr=thr)
    r = _call(fr, case["thr_kind"], thr, metric, normalize)
    if metric.endswith("_ci"):
        # interval-valued metrics: every cell holds (lower, upper); each bound is normalised like a metric of
        # its own (lower bounds of small rates are negative)
        differ = False
        for b in (0, 1):
            keys, raw, exp, defined = ref_table(fr, thr, f"{metric}:{b}", normalize)
            part = r.values.apply(lambda col: col.map(lambda c: float(np.asarray(c, dtype=float).reshape(-1)[b])))
            _compare(part, keys, exp, defined, dict(ctx, txt=ctx["txt"] + f" bound {b}"), "bias:value")
            differ = differ or (len(keys) >= 2 and np.isfinite(raw).any()
                                and bool(np.any(np.nanmax(raw, axis=0) - np.nanmin(raw, axis=0) > 0)))
        return dict(nontrivial=bool(differ), labels=[f"ncols:{fr['ncols']}", f"norm:{normalize}", "interval-metric"])
    keys, raw, exp, defined = ref_table(fr, thr, metric, normalize)
    _compare(r.values, keys, exp, defined, ctx, "bias:value")
    require(r.lower is None and r.upper is None, "bias:unexpected-interval", ctx["txt"])
    if normalize == "by_min":
        got = r.values.to_numpy(dtype=float)
        for j in range(len(thr)):
            if defined[j] and raw[:, j].min() != 0:
                require(abs(np.nanmin(got[:, j]) - 1.0) <= 1e-12, "bias:by-min-smallest-not-1",
                        f"{ctx['txt']}: smallest row at {thr[j]!r} is {np.nanmin(got[:, j])!r}")
    differ = len(keys) >= 2 and bool(np.any(np.nanmax(raw, axis=0) - np.nanmin(raw, axis=0) > 0)) \
        if np.isfinite(raw).any() else False
    labels = [f"ncols:{fr['ncols']}", f"norm:{normalize}"]
    if any("_" in v for k in fr["keys"] for v in k):
        labels.append("underscore-in-group-value")
    if not np.all(np.isfinite(raw)):
        labels.append("group-metric-undefined")
    return dict(nontrivial=differ, labels=labels)


# ------------------------------------------------------------------------ clause: bootstrap
def _identity(s):
    return s


def _label_permuting(source):
    """Keeps every score and class, permutes the group labels within each class."""
    from score_analysis import GroupScores

    pp = np.random.permutation(len(source.pos))
    pn = np.random.permutation(len(source.neg))
    return GroupScores(source.pos, source.neg, pos_groups=source.pos_groups[pp],
                       neg_groups=source.neg_groups[pn], score_class=source.score_class,
                       equal_class=source.equal_class, group_names=source.groups, is_sorted=True)


@st.composite
def _boot_cases(draw):
    sampler = draw(st.sampled_from(["identity", "identity", "permute", "permute", "replacement",
                                    "by_group", "single_pass"]))
    fr = draw(_frames(max_rows=12, distinct_scores=(sampler == "permute"),
                      min_per_class=1 if sampler == "single_pass" else 0))
    kind, thr = draw(_thresholds())
    norm_choices = [None, "by_overall"] if sampler == "permute" else [None, "by_overall", "by_min"]
    return dict(fr=fr, thr_kind=kind, thr=thr, metric=draw(st.sampled_from(RATE_METRICS)),
                normalize=draw(st.sampled_from(norm_choices)), sampler=sampler,
                ci=draw(st.sampled_from(CI_METHODS)), alpha=draw(st.sampled_from([0.05, 0.1, 0.3])),
                nb=draw(st.integers(2, 12)), seed=draw(gen.RNG_SEED))


def check_bootstrap(case):
    from score_analysis import BootstrapConfig, utils

    fr, thr, metric, normalize = case["fr"], case["thr"], case["metric"], case["normalize"]
    sampler = case["sampler"]
    sm = {"identity": _identity, "permute": _label_permuting, "replacement": "replacement",
          "by_group": "replacement", "single_pass": "single_pass"}[sampler]
    cfg = BootstrapConfig(nb_samples=case["nb"], bootstrap_method=case["ci"], sampling_method=sm,
                          stratified_sampling="by_group" if sampler == "by_group" else None)
    ctx = dict(txt=f"metric={metric} normalize={normalize} sampler={sampler} ci={case['ci']} alpha={case['alpha']} "
                   f"nb_samples={case['nb']} seed={case['seed']} config={fr['sc']}/{fr['ec']} "
                   f"group values={fr['keys']}", thr=thr)
    np.random.seed(case["seed"])
    r = _call(fr, case["thr_kind"], thr, metric, normalize, bootstrap_ci=True, bootstrap_config=cfg,
              alpha=case["alpha"])
    keys, raw, exp, defined = ref_table(fr, thr, metric, normalize)
    _compare(r.values, keys, exp, defined, ctx, "bias:value")
    require(r.lower is not None and r.upper is not None, "bias:missing-interval", ctx["txt"])
    require(r.alpha == case["alpha"], "bias:alpha", ctx["txt"])
    li = _check_labels(r.lower, keys, thr, ctx["txt"], "lower")
    ui = _check_labels(r.upper, keys, thr, ctx["txt"], "upper")
    vi = _check_labels(r.values, keys, thr, ctx["txt"], "values")
    require(li == vi and ui == vi, "bias:interval-labels-differ", f"{ctx['txt']}: {vi} / {li} / {ui}")
    lo, up, val = (r.lower.to_numpy(dtype=float), r.upper.to_numpy(dtype=float),
                   r.values.to_numpy(dtype=float))
    both = np.isfinite(lo) & np.isfinite(up)
    require(bool(np.all(lo[both] <= up[both])), "bias:interval-order",
            lambda: f"{ctx['txt']}: lower {lo.tolist()} upper {up.tolist()}")
    if sampler == "identity":
        ok = np.array_equal(lo, val, equal_nan=True) and np.array_equal(up, val, equal_nan=True)
        require(ok, "bias:identity-collapse",
                lambda: f"{ctx['txt']}: under an identity sampler the interval must collapse to the reported "
                        f"value: values {val.tolist()} lower {lo.tolist()} upper {up.tolist()}")
    if sampler == "permute":
        # replay the sampler by hand: positions are those of the class's scores in ascending order
        order_p = sorted((i for i in range(len(fr["lab"])) if fr["lab"][i]), key=lambda i: stored_score(fr, i))
        order_n = sorted((i for i in range(len(fr["lab"])) if not fr["lab"][i]), key=lambda i: stored_score(fr, i))
        np.random.seed(case["seed"])
        reps = []
        allrows = list(range(len(fr["assign"])))
        for _ in range(case["nb"]):
            pp = np.random.permutation(len(order_p))
            pn = np.random.permutation(len(order_n))
            assign = list(fr["assign"])
            for a, i in enumerate(order_p):
                assign[i] = fr["assign"][order_p[pp[a]]]
            for a, i in enumerate(order_n):
                assign[i] = fr["assign"][order_n[pn[a]]]
            fr2 = dict(fr, assign=assign)
            groups = group_rows(fr2)
            reps.append([[ref_metric(fr2, groups.get(k, []), t, metric) for t in thr] for k in keys])
        reps = np.asarray(reps, dtype=float)
        ov = np.array([ref_metric(fr, allrows, t, metric) for t in thr])
        usable = np.isfinite(ov) if normalize == "by_overall" else np.ones(len(thr), dtype=bool)
        if normalize == "by_overall":
            with np.errstate(all="ignore"):
                reps = np.where((ov != 0) & np.isfinite(ov), reps / np.where(ov == 0, 1, ov), reps)
        pos = {k: i for i, k in enumerate(vi)}
        theta_hat = np.array([val[pos[k]] for k in keys])
        for a, k in enumerate(keys):
            for j in range(len(thr)):
                if not usable[j]:
                    continue
                col = reps[:, a, j]
                if not np.isfinite(col).any() or not np.isfinite(theta_hat[a, j]):
                    continue
                e = utils.bootstrap_ci(col, theta_hat[a, j], case["alpha"], method=case["ci"])
                g = (lo[pos[k], j], up[pos[k], j])
                ok = np.allclose(np.asarray(g), np.asarray(e), rtol=1e-12, atol=1e-12, equal_nan=True)
                require(ok, "bias:interval-not-for-reported-quantity",
                        lambda: f"{ctx['txt']}: group {k!r} threshold {thr[j]!r}: interval {g} but the "
                                f"{case['ci']} interval of the replicates of the reported (normalised) value "
                                f"{theta_hat[a, j]!r} is {np.asarray(e).tolist()}")
    labels = [f"sampler:{sampler}", f"norm:{normalize}", f"ci:{case['ci']}", f"ncols:{fr['ncols']}"]
    if len(keys) == 1 and len(thr) > 1:
        labels.append("one-group-many-thresholds")
    if not np.all(np.isfinite(raw)):
        labels.append("group-metric-undefined")
    differ = len(keys) >= 2 and np.isfinite(raw).any() and bool(
        np.any(np.nanmax(raw, axis=0) - np.nanmin(raw, axis=0) > 0))
    return dict(nontrivial=bool(differ), labels=labels)


def _many_group_cases(tier):
    shapes = [(17, 16), (3, 130)] if tier == "quick" else [(17, 16), (3, 130), (20, 13), (40, 40), (260, 1)]
    for k, (l1, l2) in enumerate(shapes):
        for metric, normalize in (("fnr", None), ("fpr", "by_overall")):
            yield dict(l1=l1, l2=l2, metric=metric, normalize=normalize, seed=k)


def check_many_groups(case):
    """Two group columns with l1 x l2 value combinations (most of them present)."""
    rs = np.random.RandomState(case["seed"])
    l1, l2 = case["l1"], case["l2"]
    v1 = [f"site{i:03d}" for i in range(l1)]
    v2 = [f"dev_{j}" for j in range(l2)]
    keys = [[a, b] for a in v1 for b in v2 if rs.rand() < 0.9]
    assign = list(range(len(keys))) + rs.randint(0, len(keys), size=len(keys) // 2).tolist()
    rs.shuffle(assign)
    n = len(assign)
    fr = dict(ncols=2 if l2 > 1 else 1, keys=keys if l2 > 1 else [[k[0]] for k in keys], assign=assign,
              lab=(rs.rand(n) < 0.5).tolist(), scores=(rs.randint(0, 11, size=n) / 10).tolist(), pl=0,
              sc=("pos", "neg")[case["seed"] % 2], ec="pos", index_seed=case["seed"],
              frame_cols_reversed=bool(case["seed"] % 2), score_dtype="float")
    thr = [0.3, 0.5]
    ctx = dict(txt=f"{l1}x{l2} group values, metric={case['metric']} normalize={case['normalize']}", thr=thr)
    r = _call(fr, "list", thr, case["metric"], case["normalize"])
    gk, raw, exp, defined = ref_table(fr, thr, case["metric"], case["normalize"])
    _compare(r.values, gk, exp, defined, ctx, "bias:value")
    return dict(nontrivial=True, labels=[f"groups:{len(gk)}"])


def _by_min_bootstrap(case):
    """D10: with normalize='by_min' the bootstrap replicates are normalised by the minimum over the
    replicate axis instead of over groups."""
    return case.get("normalize") == "by_min" and "sampler" in case


PROP = Prop(
    id="C18",
    rule=("Hypothesis: DataFrames with 1-4 groups (>=1 row each, up to 14 rows), one or two group "
          "columns with string values from an alphabet incl. '_', space, unicode and values that "
          "collide when joined ('a_b','c' vs 'a','b_c'), labels with 4 kinds of pos_label (a group "
          "may lack a class), scores with ties, unused extra columns, shuffled non-default index; "
          "all 29 scalar ConfusionMatrix metric names; thresholds scalar / list / array; normalize "
          "None / by_overall / by_min; 4 configs. Oracle: index = set of group values of exactly "
          "the rows used, columns = thresholds, entry = metric of the counting reference over that "
          "group's rows (NaN where undefined), by_overall / by_min normalisation unless the divisor "
          "is 0 (asserted only where the divisor is defined), smallest by_min row = 1, frame "
          "unchanged. Bootstrap (9 rate metrics, 3 CI methods): same labels on values/lower/upper, "
          "lower<=upper where finite; identity sampler: lower == upper == values; label-permuting "
          "sampler (normalize None / by_overall, distinct scores): limits == utils.bootstrap_ci("
          "harness-recomputed normalised replicates, reported values, alpha, method); built-in "
          "replacement / by_group / single_pass samplers for well-formedness. Non-trivial = >=2 "
          "groups whose metric values differ."),
    clauses=[
        Clause("values", check_values, strategy=_value_cases(), quick=300, thorough=9000, quick_shards=4,
               min_nontrivial=100, doc="labels, entries, normalisation"),
        Clause("many_groups", check_many_groups, kind="enum", cases=_many_group_cases, quick_shards=4, shards=10,
               min_nontrivial=2, doc="130-1600 group combinations in two group columns"),
        Clause("bootstrap", check_bootstrap, strategy=_boot_cases(), quick=200, thorough=6000,
               quick_shards=4, min_nontrivial=100, doc="intervals are for the reported quantity"),
    ],
    predicates={"by_min_bootstrap": _by_min_bootstrap},
    assumptions=["whether a NaN group value propagates through by_min is not stated: normalised "
                 "entries are asserted only where the divisor is defined",
                 "row order of the result is not claimed, rows are matched by label"],
)

RULE_EXTRA = ('group values that differ only by Unicode normal form, case or padding, and the empty string; a row index named like one of the columns; unused columns with missing values (NaN / None) in some rows; group columns held by the frame in reversed order; uint8 / float32 score columns. Interval-valued metrics (tpr_ci, fnr_ci, ...); adjacent 64-bit ids beyond 2^53 as labels.')
