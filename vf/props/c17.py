"""C17 - general threshold search returns true solutions of the interpolated metric."""

from __future__ import annotations

import math
from fractions import Fraction as F

import numpy as np
from hypothesis import strategies as st

from .. import gen
from ..harness import Clause, Prop, Violation, require


def interp_exact(fx, fy, z: F):
    """Exact value of the piecewise-linear interpolant at z (None outside the range)."""
    n = len(fx)
    if n == 1:
        return [fy[0]] if z == fx[0] else None
    if z < fx[0] or z > fx[-1]:
        return None
    vals = []
    for i in range(n - 1):
        if fx[i] <= z <= fx[i + 1]:
            if fx[i] == fx[i + 1]:
                vals.append(fy[i])
            else:
                vals.append(fy[i] + (fy[i + 1] - fy[i]) * (z - fx[i]) / (fx[i + 1] - fx[i]))
    return vals


@st.composite
def _pl_cases(draw):
    mode = draw(st.sampled_from(["grid", "grid", "float", "narrow-int", "int-y", "subnormal"]))
    n = draw(st.integers(1, 9))
    x_dtype = None
    y_dtype = None
    if mode == "int-y":
        # sample values held in an integer or boolean type (counts, flags), up to the ends of its range
        y_dtype = draw(st.sampled_from(["uint8", "uint8", "uint16", "uint64", "int8", "int16", "bool"]))
        lo_, hi_ = {"uint8": (0, 255), "uint16": (0, 65535), "uint64": (0, 2**52), "int8": (-128, 127),
                    "int16": (-32768, 32767), "bool": (0, 1)}[y_dtype]
        pick = st.one_of(st.sampled_from([lo_, hi_, lo_ + 1 if hi_ > 1 else lo_, hi_ - 1]), st.integers(lo_, min(hi_, lo_ + 6)),
                         st.integers(lo_, hi_))
        xs = sorted(k / 4 for k in draw(st.lists(st.integers(0, 12), min_size=n, max_size=n)))
        ys = [float(v) for v in draw(st.lists(pick, min_size=n, max_size=n))]
    if mode == "int-y":
        pass
    elif mode == "subnormal":
        # sample values and targets that are small multiples of the smallest positive float (nothing below it
        # can be represented, so halving or averaging them is not exact)
        u = 5e-324
        xs = sorted(k / 4 for k in draw(st.lists(st.integers(0, 12), min_size=n, max_size=n)))
        ys = [k * u for k in draw(st.lists(st.integers(0, 9), min_size=n, max_size=n))]
    elif mode == "narrow-int":
        # sample points held in a narrow signed integer type, spread over its whole range (gaps wider
        # than the type's maximum)
        x_dtype = draw(st.sampled_from(["int8", "int16", "int64"]))
        lo_, hi_ = {"int8": (-128, 127), "int16": (-32768, 32767), "int64": (-(2**52), 2**52)}[x_dtype]
        pick = st.one_of(st.sampled_from([lo_, hi_, 0, lo_ + 1, hi_ - 1]), st.integers(lo_, hi_))
        xs = sorted(float(v) for v in draw(st.lists(pick, min_size=n, max_size=n)))
        ys = [k / 2 for k in draw(st.lists(st.integers(-4, 4), min_size=n, max_size=n))]
    elif mode == "grid":
        xs = sorted(k / 4 for k in draw(st.lists(st.integers(0, 12), min_size=n, max_size=n)))
        ys = [k / 2 for k in draw(st.lists(st.integers(-4, 4), min_size=n, max_size=n))]
    else:
        fl = st.floats(min_value=-1e3, max_value=1e3, allow_nan=False, allow_subnormal=False)
        xs = sorted(draw(st.lists(fl, min_size=n, max_size=n)))
        ys = draw(st.lists(fl, min_size=n, max_size=n))
    for i in range(1, n):
        if xs[i] == xs[i - 1]:
            ys[i] = ys[i - 1]
    scalar = draw(st.booleans())
    T = 1 if scalar else draw(st.integers(0, 4))
    if mode == "subnormal":
        for i in range(1, n):
            if xs[i] == xs[i - 1]:
                ys[i] = ys[i - 1]
        scalar = draw(st.booleans())
        T = 1 if scalar else draw(st.integers(0, 4))
        ts = [k * 5e-324 for k in draw(st.lists(st.integers(0, 10), min_size=T, max_size=T))]
        return dict(x=xs, y=ys, t=ts, scalar=scalar, mode=mode, x_dtype=None, y_dtype=None, t_same=False)
    cand = st.one_of(st.sampled_from(ys), st.sampled_from(ys).map(lambda v: v + 0.25),
                     st.sampled_from([-5.0, 5.0, 0.1, 2e3, -2e3]),
                     st.floats(min_value=min(ys) - 1, max_value=max(ys) + 1, allow_nan=False))
    ts = draw(st.lists(cand, min_size=T, max_size=T))
    t_same = False
    if y_dtype and draw(st.booleans()):
        # targets that are sample values, written in the samples' own type
        ts = draw(st.lists(st.sampled_from(ys), min_size=T, max_size=T))
        t_same = True
    return dict(x=xs, y=ys, t=ts, scalar=scalar, mode=mode, x_dtype=x_dtype, y_dtype=y_dtype, t_same=t_same)


def check_solutions(xs, ys, ts, res, ctx, floor=1.0):
    """Shared oracle: res is a list with one array per target."""
    n = len(xs)
    fx, fy = [F(v) for v in xs], [F(v) for v in ys]
    yscale = max(floor, max(abs(v) for v in ys), max((abs(t) for t in ts), default=0.0))
    slopes = [abs((ys[i + 1] - ys[i]) / (xs[i + 1] - xs[i])) for i in range(n - 1) if xs[i + 1] > xs[i]]
    xmax = max(abs(v) for v in xs)
    tol = 1e-9 * yscale + 16 * 2.3e-16 * max(xmax, 1e-300) * (max(slopes) if slopes else 0.0)
    stats = dict(multi=0, fallback=0, touch=0)
    require(len(res) == len(ts), "pl:one-entry-per-target", f"{ctx}: {len(res)} entries for {len(ts)} targets")
    for t, sol in zip(ts, res):
        sol = np.asarray(sol, dtype=float).ravel()
        require(sol.size >= 1, "pl:empty-result", f"{ctx}: target {t!r}")
        attained = min(ys) <= t <= max(ys)
        if attained:
            for z in sol.tolist():
                require(xs[0] <= z <= xs[-1], "pl:outside-range", f"{ctx}: target {t!r}: {z!r} not in "
                                                                  f"[{xs[0]!r}, {xs[-1]!r}]")
                vals = interp_exact(fx, fy, F(z))
                require(bool(vals), "pl:outside-range", f"{ctx}: target {t!r}: {z!r}")
                err = min(abs(float(v - F(t))) for v in vals)
                require(err <= tol, "pl:not-a-solution",
                        lambda: f"{ctx}: target {t!r}: f({z!r}) = {[float(v) for v in vals]} (|err|={err:.3g} > {tol:.3g})")
            # completeness for the unambiguous case: every transversal crossing is reported
            for i in range(n - 1):
                if (ys[i] - t) * (ys[i + 1] - t) < 0:
                    slack = 8 * float(np.spacing(max(abs(xs[i]), abs(xs[i + 1]), 1e-300)))
                    require(any(xs[i] - slack <= z <= xs[i + 1] + slack for z in sol.tolist()), "pl:crossing-missed",
                            lambda: f"{ctx}: target {t!r}: no solution reported in [{xs[i]!r}, {xs[i + 1]!r}] "
                                    f"where y goes {ys[i]!r} -> {ys[i + 1]!r}; got {sol.tolist()}")
            # ... and every *interior* maximal run of samples lying exactly on the target level
            # (a crossing through a sample point, a touch at a peak/valley, a flat run) is
            # represented by a solution inside the run.  Runs that include the first or last
            # sample are not required (the closest-point fallback covers them only when they are
            # the sole solution).
            j = 1
            while j < n - 1:
                if ys[j] == t and ys[j - 1] != t:
                    k = j
                    while k + 1 < n and ys[k + 1] == t:
                        k += 1
                    if k < n - 1:
                        slack = 8 * float(np.spacing(max(abs(xs[j]), abs(xs[k]), 1e-300)))
                        require(any(xs[j] - slack <= z <= xs[k] + slack for z in sol.tolist()),
                                "pl:touch-missed",
                                lambda: f"{ctx}: target {t!r}: samples {j}..{k} lie on the target level "
                                        f"(x in [{xs[j]!r}, {xs[k]!r}]) but no solution is reported there; "
                                        f"got {sol.tolist()}")
                    j = k + 1
                else:
                    j += 1
            d = np.diff(sol)
            xr = max(xs[-1] - xs[0], 1e-300)
            require(bool(np.all(d >= 0)) and bool(np.all((d > 0) | (np.abs(d) <= 1e-12 * xr))),
                    "pl:not-increasing", f"{ctx}: target {t!r}: {sol.tolist()}")
            if mode_exact(xs, ys, t):
                require(bool(np.all(d > 0)), "pl:not-strictly-increasing", f"{ctx}: target {t!r}: {sol.tolist()}")
            if sol.size >= 2:
                stats["multi"] += 1
            if t == max(ys) or t == min(ys):
                stats["touch"] += 1
        else:
            require(sol.size == 1, "pl:fallback-not-single", f"{ctx}: target {t!r} is not attained but got {sol.tolist()}")
            dist = [abs(v - t) for v in ys]
            ok = any(xs[i] == sol[0] and dist[i] == min(dist) for i in range(n))
            require(ok, "pl:fallback-not-closest",
                    lambda: f"{ctx}: target {t!r} not attained; returned {sol[0]!r}, closest sample value is at "
                            f"{[xs[i] for i in range(n) if dist[i] == min(dist)]}")
            stats["fallback"] += 1
    return stats


def mode_exact(xs, ys, t):
    """Grid inputs: all arithmetic is exact, so solutions must be strictly increasing."""
    return all(float(v * 4).is_integer() for v in xs) and all(float(v * 4).is_integer() and abs(v) <= 2**20 for v in ys) \
        and float(t * 4).is_integer()


def check_pl(case):
    from score_analysis.utils import invert_pl_function

    xs, ys, ts = case["x"], case["y"], case["t"]
    x_a, y_a = np.asarray(xs, dtype=case.get("x_dtype") or float), np.asarray(ys, dtype=case.get("y_dtype") or float)
    x0, y0 = x_a.copy(), y_a.copy()
    t_in = float(ts[0]) if case["scalar"] else np.asarray(ts, dtype=float)
    if case.get("t_same"):
        t_in = y_a.dtype.type(ts[0]) if case["scalar"] else np.asarray(ts, dtype=y_a.dtype)
    res = invert_pl_function(x_a, y_a, t_in)
    ctx = f"x={xs} y={ys}"
    if case["scalar"]:
        require(not isinstance(res, list) and isinstance(res, np.ndarray), "pl:scalar-not-bare-array",
                f"{ctx}: scalar target gave {type(res).__name__}")
        res = [res]
    else:
        require(isinstance(res, list), "pl:array-target-not-list", f"{ctx}: {type(res).__name__}")
    # (subnormal values: the residual is compared as a float, i.e. to within half the smallest positive float)
    stats = check_solutions(xs, ys, ts, res, ctx, floor=0.0 if case["mode"] == "subnormal" else 1.0)
    require(np.array_equal(x_a, x0) and np.array_equal(y_a, y0), "pl:mutated-input", ctx)
    labels = [f"mode:{case['mode']}"] + [k for k, v in stats.items() if v]
    return dict(nontrivial=any(stats.values()), labels=labels)


# ------------------------------------------------------------------ threshold_at_metric
METRICS = ["fnr", "fpr", "tpr", "tnr", "topr", "tonr", "tar", "frr", "trr", "far", "acceptance_rate",
           "rejection_rate", "call-absdiff", "call-sum", "call-npv", "call-centred", "call-ecdf"]


def _metric(name):
    if name == "call-absdiff":
        return lambda s, t: np.abs(s.fnr(t) - s.fpr(t))
    if name == "call-sum":
        return lambda s, t: s.fnr(t) + 2 * s.fpr(t)
    # metrics that look at the whole vector of evaluation points (equal points still get equal values):
    # a rate centred over the points it is evaluated at, and the empirical distribution of those points
    if name == "call-centred":
        return lambda s, t: s.fpr(t) - np.mean(s.fpr(t))
    if name == "call-ecdf":
        return lambda s, t: np.searchsorted(np.sort(np.ravel(t)), t, side="right") / max(np.size(t), 1)
    if name == "call-npv":
        return lambda s, t: np.nan_to_num(s.cm(t).npv(), nan=0.5)
    return name


@st.composite
def _tam_cases(draw):
    s = draw(gen.score_sets(min_pos=0, min_neg=0, max_size=8, modes=("grid", "dyadic", "distinct", "int"),
                            max_easy=10, containers=("f64", "f64", "f64", "neg-int", "pos-int", "neg-f32")))  # one class may be empty
    sc, ec = draw(gen.CONFIG)
    pk = draw(st.sampled_from(["none", "none", "int", "array"]))
    allv = sorted(set(map(float, s["pos"] + s["neg"]))) or [0.0]
    if pk == "int":
        points = draw(st.integers(2, 12))
    elif pk == "array":
        lo, hi = min(allv) - 1, max(allv) + 1
        pts = draw(st.lists(st.integers(0, 40), min_size=2, max_size=8))
        points = sorted(lo + (hi - lo) * k / 40 for k in pts)
    else:
        points = None
    scalar = draw(st.booleans())
    T = 1 if scalar else draw(st.integers(0, 3))
    ts = draw(st.lists(st.one_of(st.sampled_from([0.0, 0.25, 0.5, 1.0, 1 / 3, -0.2, 1.7]),
                                 st.floats(min_value=0, max_value=1)), min_size=T, max_size=T))
    return dict(s=s, sc=sc, ec=ec, pk=pk, points=points, t=ts, scalar=scalar,
                int_kind=draw(st.sampled_from(["int", "int", "enum", "subclass"])),
                metric=draw(st.sampled_from(METRICS)), callable_kind=draw(st.sampled_from(gen.CALLABLE_KINDS)),
                then_shift=draw(st.sampled_from([0, 0, 1, -2, 3])))


def check_tam(case):
    from score_analysis import Scores
    from score_analysis.utils import invert_pl_function

    s = case["s"]
    dt = int if s["mode"] == "int" else float
    # (the two classes may be held in different dtypes)
    o = Scores(gen.build_scores(s, "pos"), gen.build_scores(s, "neg"),
               nb_easy_pos=s["ep"], nb_easy_neg=s["en"], score_class=case["sc"], equal_class=case["ec"])
    out = _tam_compare(case, o, s["pos"], s["neg"], "")
    if case.get("then_shift") and out["labels"] != ["rejected<2values"]:
        # the repository's notebooks re-assign a class's scores on an existing object
        # (`scores.neg = scores.neg - 0.15`); the object must then answer for the new scores
        if len(s["pos"]) + len(s["neg"]) > 0:
            o.threshold_at_topr(0.5)
        sh = case["then_shift"]
        o.neg = o.neg + o.neg.dtype.type(sh)
        out2 = _tam_compare(case, o, s["pos"], [v + sh for v in s["neg"]], "after o.neg = o.neg + shift: ")
        out["labels"] = out["labels"] + ["reassigned-scores"]
        out["nontrivial"] = out["nontrivial"] or out2["nontrivial"]
    return out


def _tam_compare(case, o, pos, neg, tag):
    from score_analysis import Scores
    from score_analysis.utils import invert_pl_function

    s = dict(case["s"], pos=pos, neg=neg)
    metric = _metric(case["metric"])
    allv = sorted(map(float, s["pos"] + s["neg"]))
    t_in = float(case["t"][0]) if case["scalar"] else np.asarray(case["t"], dtype=float)
    pk = case["pk"]
    pts_arg = None if pk == "none" else (case["points"] if pk == "int" else np.asarray(case["points"], dtype=float))
    if pk == "int" and case.get("int_kind", "int") != "int":
        # the number of grid points as an instance of an int subclass (a named constant)
        import enum

        pts_arg = (enum.IntEnum("Grid", {"size": case["points"]}).size if case["int_kind"] == "enum"
                   else type("GridSize", (int,), {})(case["points"]))
    degenerate = (pk == "none" and len(allv) < 2) or (pk == "int" and (not allv or allv[0] >= allv[-1]))
    ctx = f"{tag}metric={case['metric']} points={case['points']} config={case['sc']}/{case['ec']} pos={s['pos']} neg={s['neg']}"
    try:
        # a callable metric may come in any of Python's callable shapes
        metric_arg = metric if isinstance(metric, str) else gen.wrap_callable(metric, case.get("callable_kind", "function"))
        got = o.threshold_at_metric(t_in, metric_arg, pts_arg)
    except ValueError:
        require(degenerate, "tam:rejected-valid", f"{ctx}: ValueError")
        return dict(nontrivial=False, labels=["rejected<2values"])
    require(not degenerate, "tam:accepted-degenerate", ctx)
    # the harness recomputes the evaluation points
    if pk == "none":
        P = np.asarray(allv, dtype=float)
    elif pk == "int":
        # evenly spaced points spanning the scores, in the precision the scores are held in
        ends = [a[j] for a in (o.pos, o.neg) if len(a) for j in (0, -1)]
        P = np.linspace(min(ends), max(ends), case["points"], endpoint=True)
    else:
        P = np.asarray(case["points"], dtype=float)
    f = getattr(Scores, metric) if isinstance(metric, str) else metric
    Y = np.asarray(f(o, P), dtype=float)
    if np.isnan(Y).any():
        # the metric is undefined for this object (its class is empty): nothing is claimed
        return dict(nontrivial=False, labels=["metric-undefined(empty class)"])
    exp = invert_pl_function(P, Y, t_in)
    if case["scalar"]:
        require(isinstance(got, np.ndarray), "tam:scalar-not-bare-array", f"{ctx}: {type(got).__name__}")
        got_l, exp_l = [got], [exp]
    else:
        require(isinstance(got, list) and len(got) == len(case["t"]), "tam:one-entry-per-target", ctx)
        got_l, exp_l = got, exp
    for g, e, t in zip(got_l, exp_l, case["t"]):
        require(np.array_equal(np.asarray(g).ravel(), np.asarray(e).ravel()), "tam:not-the-inversion",
                lambda: f"{ctx}: target {t!r}: got {np.asarray(g).ravel().tolist()} but inverting the metric "
                        f"on the evaluation points gives {np.asarray(e).ravel().tolist()}")
    # and the inversion itself returns true solutions of the interpolant through (P, Y)
    stats = check_solutions(P.tolist(), Y.tolist(), list(case["t"]), got_l, ctx)
    labels = [f"points:{pk}", f"metric:{case['metric']}", f"mode:{s['mode']}"] + [k for k, v in stats.items() if v]
    if not isinstance(metric, str):
        labels.append(f"callable:{case.get('callable_kind', 'function')}")
    return dict(nontrivial=any(stats.values()), labels=labels)


# ------------------------------------------------------------------ large inputs
def _large_cases(tier):
    """Many samples x many targets (the implementation broadcasts an (N, T) array)."""
    shapes = [(30001, 400), (5000, 900), (1_200_000, 3), (200, 30000)]
    if tier != "quick":
        shapes += [(60001, 300), (2_100_000, 5), (1000, 9000), (300_000, 40), (12, 600_000)]
    for k, (n, t) in enumerate(shapes):
        yield dict(n=n, t=t, seed=100 + k)


def check_large(case):
    from score_analysis.utils import invert_pl_function

    rs = np.random.RandomState(case["seed"])
    n, T = case["n"], case["t"]
    x = np.arange(n, dtype=float)
    y = np.cumsum(rs.randint(-1, 2, size=n)).astype(float)  # integer random walk
    lo, hi = y.min(), y.max()
    # half-integer targets: only transversal crossings, never touches; some targets outside the range
    ts = rs.randint(int(lo) - 3, int(hi) + 3, size=T).astype(float) + 0.5
    res = invert_pl_function(x, y, ts)
    require(isinstance(res, list) and len(res) == T, "pl:one-entry-per-target", f"N={n} T={T}: {len(res)} entries")
    d0, d1 = y[:-1], y[1:]
    multi = fallback = 0
    for j in range(T):
        t = ts[j]
        sol = np.asarray(res[j], dtype=float).ravel()
        cross = np.nonzero((d0 - t) * (d1 - t) < 0)[0]
        ctx = f"N={n} T={T} seed={case['seed']} target #{j} = {t!r}"
        if len(cross):
            require(len(sol) == len(cross), "pl:crossing-missed",
                    lambda: f"{ctx}: {len(cross)} transversal crossings, {len(sol)} solutions reported")
            exp = x[cross] + (t - d0[cross]) / (d1[cross] - d0[cross])
            require(bool(np.all(np.abs(sol - exp) <= 1e-9 * n)), "pl:not-a-solution",
                    lambda: f"{ctx}: first reported {sol[:3].tolist()} expected {exp[:3].tolist()}")
            require(bool(np.all(np.diff(sol) > 0)), "pl:not-increasing", ctx)
            multi += len(sol) >= 2
        else:
            require(len(sol) == 1, "pl:fallback-not-single", f"{ctx}: {len(sol)} points")
            dist = np.abs(y - t)
            i = int(round(float(sol[0])))
            require(0 <= i < n and x[i] == sol[0] and dist[i] == dist.min(), "pl:fallback-not-closest", ctx)
            fallback += 1
    return dict(nontrivial=multi > 0 and fallback > 0, labels=[f"N*T>={(n * T) // 10**6}e6"])


PROP = Prop(
    id="C17",
    rule=("invert_pl_function: Hypothesis, n=1..9 samples, x non-decreasing (duplicates carry equal "
          "y), y and targets on a coarse grid (multiples of 1/4, 1/2: exact crossings, touches, "
          "flat runs at the target level, peaks) or arbitrary floats in [-1e3,1e3]; targets inside, "
          "on and outside [min y, max y]; scalar, empty and array targets. Oracle: exact rational "
          "piecewise-linear interpolant: if min y <= t <= max y every returned point lies in the "
          "sampled range and solves f(z)=t (1e-9*scale + rounding of z times the steepest slope), "
          "points increasing (strictly on exact grid inputs); otherwise exactly one point, an x_i "
          "with |y_i - t| minimal; one entry per target; scalar target -> bare array. "
          "threshold_at_metric: Scores with ties / tie-free, metric by name or callable (monotone "
          "and non-monotone), points None / int 2..12 / sorted array: result == "
          "invert_pl_function(P, metric(S,P), target) with P recomputed by the harness (exact), and "
          "the same solution oracle; fewer than 2 distinct values -> ValueError. Non-trivial = a "
          "target with >=2 solutions, a touch (t = min y or max y) or the closest-point fallback."),
    clauses=[
        Clause("invert_pl", check_pl, strategy=_pl_cases(), quick=1500, thorough=32000, quick_shards=3, fuzz=40000,
               min_nontrivial=300, doc="solutions of the interpolant, ordering, fallback"),
        Clause("large_inputs", check_large, kind="enum", cases=_large_cases, quick_shards=4, shards=9,
               min_nontrivial=2, doc="6e6-1.2e7 (sample, target) pairs per call, tall and wide"),
        Clause("threshold_at_metric", check_tam, strategy=_tam_cases(), quick=400, thorough=8000,
               quick_shards=3, min_nontrivial=100, doc="= inversion on the documented evaluation points"),
    ],
)

RULE_EXTRA = ('callable metrics as function / lambda / partial / bound method / callable object / dataclass instance; integer score dtype; interior touches/runs completeness; re-assigned score arrays on the object; clause large_inputs with 6e6-1.2e7 (sample, target) pairs. Callables that depend on the whole vector of evaluation points; sample values in unsigned / narrow signed integer and boolean types; sample values and targets that are small multiples of 5e-324. Grid sizes as IntEnum members / int-subclass instances.')
