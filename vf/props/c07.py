"""C07 - AUC = Mann-Whitney statistic; partial AUC = exact area under the step ROC."""

from __future__ import annotations

from fractions import Fraction as F

import numpy as np
from hypothesis import strategies as st

from .. import gen
from ..harness import Clause, Prop, require
from ..oracles import CONFIGS, mann_whitney


def step_area(pos, neg, ep, en, sc, lo: F, up: F) -> F:
    """Exact area under the empirical step ROC (x=FPR, y=TPR) over [lo, up]; requires that no
    value is shared between the classes.  Only the scored negatives are visited; the stretch of
    the FPR axis that belongs to the (never accepted) easy negatives is one flat piece."""
    negs = sorted(neg, reverse=(sc == "pos"))  # most positive-looking negative first
    Mall, Pall = len(neg) + en, len(pos) + ep
    area = F(0)
    for k in range(len(negs)):
        a, b = F(k, Mall), F(k + 1, Mall)
        l, u = max(a, lo), min(b, up)
        if u <= l:
            continue
        v = negs[k]
        cnt = sum(1 for p in pos if (p > v if sc == "pos" else p < v)) + ep
        area += (u - l) * F(cnt, Pall)
    # beyond the scored negatives every positive is accepted
    l, u = max(F(len(negs), Mall), lo), min(F(1), up)
    if u > l:
        area += (u - l)
    return area


def _mk(s, sc, ec):
    from score_analysis import Scores

    return Scores(gen.build_scores(s, "pos"), gen.build_scores(s, "neg"),
                  nb_easy_pos=s["ep"], nb_easy_neg=s["en"], score_class=sc, equal_class=ec)


# ---------------------------------------------------------------------------- full AUC
def _full_cases(max_size=10):
    return st.fixed_dictionaries(dict(
    s=gen.score_sets(min_pos=1, min_neg=1, max_size=max_size,
                     modes=("grid", "grid", "grid", "int", "dyadic", "float", "ulp", "distinct"), huge_easy=True, containers=("f64", "f64", "f32", "list", "neg-int", "pos-int", "neg-f32", "f128", "series", "swapped")),
    int_limits=st.booleans(),
    # the largest finite float as a score (a sentinel), possibly in both classes
    sentinel=st.sampled_from([None, None, None, "low", "high", "both", "high-tie", "low-tie"]),
    # one class in single precision, the other in double precision one float64 step next to it
    mixed_ulp=st.one_of(st.none(), st.none(), st.fixed_dictionaries(dict(
        coarse=st.sampled_from(["pos", "neg"]), vals=st.lists(st.integers(-64, 64), min_size=1, max_size=5, unique=True),
        steps=st.lists(st.sampled_from([-1, 1, 2, -2]), min_size=1, max_size=5),
        extra=st.lists(st.integers(-64, 64), min_size=0, max_size=3))))))


def _mixed_precision_objects(mu, ep, en):
    """(factory(sc, ec) -> Scores, pos values, neg values): the coarse class holds k/64 in float32, the
    fine class holds float64 values one or two steps away from them (all distinct, no ties)."""
    import math as _m

    from score_analysis import Scores

    coarse = [k / 64 for k in mu["vals"]]
    fine = []
    for v, st_ in zip(coarse, mu["steps"]):
        x = v
        for _ in range(abs(st_)):
            x = _m.nextafter(x, _m.inf if st_ > 0 else -_m.inf)
        fine.append(x)
    fine += [k / 64 + 1 / 256 for k in mu["extra"]]
    fine = sorted(set(fine) - set(coarse))
    if not fine:
        return None
    c_arr, f_arr = np.asarray(coarse, dtype=np.float32), np.asarray(fine, dtype=np.float64)
    pos, neg = (coarse, fine) if mu["coarse"] == "pos" else (fine, coarse)
    pa, na = (c_arr, f_arr) if mu["coarse"] == "pos" else (f_arr, c_arr)
    return (lambda sc, ec: Scores(pa, na, nb_easy_pos=ep, nb_easy_neg=en, score_class=sc, equal_class=ec)), pos, neg


def check_full(case):
    s = case["s"]
    if case.get("sentinel"):
        from .c03 import _with_sentinels

        kind = case["sentinel"]
        s, _ = _with_sentinels(s, kind.split("-")[0])
        if kind.endswith("-tie") and s["pos"] and s["neg"]:
            # ... present in both classes (a cross-class tie at the very end of the score range)
            ext = (max if kind.startswith("high") else min)(s["pos"] + s["neg"])
            if abs(ext) > 1e300:
                s = dict(s, pos=list(s["pos"]) + [ext], neg=list(s["neg"]) + [ext])
    pos, neg, ep, en = s["pos"], s["neg"], s["ep"], s["en"]
    mu = case.get("mixed_ulp")
    if mu and ep < 2**31 and en < 2**31:
        built = _mixed_precision_objects(mu, ep, en)
        if built:
            mk, mpos, mneg = built
            for sc, ec in CONFIGS:
                got = float(mk(sc, ec).auc())
                ref = mann_whitney(mpos, mneg, sc, ep, en)
                require(abs(got - float(ref)) <= 1e-12, "auc:mann-whitney",
                        lambda: f"config={sc}/{ec} float32 {mu['coarse']} class next to float64 values one step away: "
                                f"pos={mpos} neg={mneg} ep={ep} en={en}: auc()={got!r}, Mann-Whitney={float(ref)!r}")
    cross = bool(set(map(float, pos)) & set(map(float, neg)))
    for sc, ec in CONFIGS:
        # the default limits, or the same limits written as Python integers
        got = float(_mk(s, sc, ec).auc(0, 1) if case.get("int_limits") else _mk(s, sc, ec).auc())
        ref = mann_whitney(pos, neg, sc, ep, en)
        require(abs(got - float(ref)) <= 1e-12, "auc:mann-whitney",
                lambda: f"config={sc}/{ec} pos={pos} neg={neg} ep={ep} en={en}: auc()={got!r}, "
                        f"Mann-Whitney={float(ref)!r} ({ref})")
        swapped = float(_mk(s, sc, ec).auc(x_axis="tpr", y_axis="fpr"))
        require(abs(swapped - (1 - float(ref))) <= 1e-12, "auc:swap-axes",
                lambda: f"config={sc}/{ec}: auc(x=tpr,y=fpr)={swapped!r} expected {1 - float(ref)!r}")
    lo_p, hi_p, lo_n, hi_n = min(pos), max(pos), min(neg), max(neg)
    overlap = not (lo_p > hi_n or hi_p < lo_n)
    labels = [f"mode:{s['mode']}", f"container:{s.get('container')}"]
    if case.get("sentinel"):
        labels.append(f"sentinel:{case['sentinel']}")
    if mu:
        labels.append("mixed-precision-neighbours")
    if case.get("int_limits"):
        labels.append("integer-limits")
    if cross:
        labels.append("cross-tie")
        allv = list(map(float, pos + neg))
        if (set(map(float, pos)) & set(map(float, neg))) & {min(allv), max(allv)}:
            labels.append("cross-tie-at-extreme")
    if ep or en:
        labels.append("easy")
    return dict(nontrivial=overlap, labels=labels)


# ------------------------------------------------------------------------- partial AUC
@st.composite
def _partial_cases(draw):
    nv = draw(st.integers(2, 10))
    vals = draw(st.lists(st.integers(-20, 20), min_size=nv, max_size=nv, unique=True))
    scale = draw(st.sampled_from([1.0, 0.5, 0.37, 100.0]))
    # every distinct value belongs to exactly one class (no cross-class ties)
    owner = draw(st.lists(st.booleans(), min_size=nv, max_size=nv))
    pv = [v * scale for v, o in zip(vals, owner) if o]
    nvv = [v * scale for v, o in zip(vals, owner) if not o]
    if not pv:
        pv.append(nvv.pop())
    if not nvv:
        nvv.append(pv.pop())
    n = draw(st.integers(1, 8))
    m = draw(st.integers(1, 8))
    pos = [pv[i % len(pv)] for i in draw(st.lists(st.integers(0, 50), min_size=n, max_size=n))]
    neg = [nvv[i % len(nvv)] for i in draw(st.lists(st.integers(0, 50), min_size=m, max_size=m))]
    ez = st.one_of(st.just(0), st.just(0), st.integers(1, 5), st.integers(6, 60))
    ep, en = draw(ez), draw(ez)
    Nn = m + en

    def lim():
        return st.one_of(st.integers(0, Nn).map(lambda k: k / Nn),
                         st.floats(min_value=0.0, max_value=1.0),
                         st.sampled_from([0.0, 1.0, 0.5, 1 / 3, 0.1]))

    pts = sorted(draw(st.lists(lim(), min_size=3, max_size=3)))
    stratum = draw(st.sampled_from(["general", "general", "general", "huge-easy"]))
    if stratum == "huge-easy":
        # very many easy negatives: the whole scored part of the curve lives within m/Nn of one end of
        # the FPR axis; limits at FPR values the curve attains (areas ~1e-15 and smaller, compared
        # with a relative tolerance)
        en = draw(st.sampled_from([10**16, 2**53 + 12345, 10**15 + 7]))
        Nn = m + en
        pts = sorted(draw(st.lists(st.integers(0, m).map(lambda k: k / Nn), min_size=3, max_size=3)))
    return dict(stratum=stratum, s=dict(pos=pos, neg=neg, ep=ep, en=en, mode="float",
                       container=draw(st.sampled_from(["f64", "f64", "list", "f128", "f32"]))), lims=pts,
                lim_kind=draw(st.sampled_from(["float", "float", "int", "np", "np32", "np16"])))


def check_partial(case):
    s = case["s"]
    pos, neg, ep, en = s["pos"], s["neg"], s["ep"], s["en"]
    lo, mid, up = case["lims"]
    inside = False
    stratum = case.get("stratum", "general")
    kind = case.get("lim_kind", "float")
    if s.get("container") == "f32" and any(float(np.float32(v)) != v for v in pos + neg):
        s = dict(s, container="f64")

    if kind in ("np32", "np16") and stratum == "general":
        # limits taken from a single / half precision grid: the window meant is the one between the values held
        dt_ = np.float32 if kind == "np32" else np.float16
        lo, mid, up = sorted(float(dt_(v)) for v in (lo, mid, up))

    def L(v):
        """The limit as the caller may write it: 0 and 1 as Python integers, or NumPy scalars."""
        if kind == "int" and v in (0.0, 1.0):
            return int(v)
        if kind == "np":
            return np.float64(v)
        if kind in ("np32", "np16") and stratum == "general" and float((np.float32 if kind == "np32" else np.float16)(v)) == v:
            return (np.float32 if kind == "np32" else np.float16)(v)
        return v

    for sc, ec in CONFIGS:
        obj = _mk(s, sc, ec)
        ctx = f"config={sc}/{ec} pos={pos} neg={neg} ep={ep} en={en}"
        areas = {}
        for a, b in ((lo, up), (lo, mid), (mid, up), (0.0, 1.0)):
            got = float(obj.auc(L(a), L(b)))
            ref = float(step_area(pos, neg, ep, en, sc, F(a), F(b)))
            areas[(a, b)] = got
            tol = 1e-9 if stratum == "general" else 1e-9 * ref + 1e-24  # tiny areas: relative
            require(abs(got - ref) <= tol, "pauc:step-area",
                    lambda: f"{ctx}: auc({a!r},{b!r})={got!r}, exact step area {ref!r}")
            require(got <= (b - a) + 1e-12, "pauc:exceeds-width", f"{ctx}: {got!r} > {b - a!r}")
            if stratum != "general":
                continue  # the mirrored axes (1 - x) cannot resolve windows of 1e-13 or rates of 1e-16
            yc = float(obj.auc(L(a), L(b), y_axis="fnr"))
            require(abs(yc - ((b - a) - ref)) <= 1e-9, "pauc:y-complement",
                    lambda: f"{ctx}: auc({a!r},{b!r},y=fnr)={yc!r} expected {(b - a) - ref!r}")
            xc = float(obj.auc(L(1 - b), L(1 - a), x_axis="tnr"))
            require(abs(xc - ref) <= 1e-9, "pauc:x-complement",
                    lambda: f"{ctx}: auc({1 - b!r},{1 - a!r},x=tnr)={xc!r} expected {ref!r}")
            # the axes under their documented alias names
            al = [float(obj.auc(L(a), L(b), x_axis="far", y_axis="tar")), float(obj.auc(L(a), L(b), x_axis="far")),
                  float(obj.auc(L(a), L(b), y_axis="tar"))]
            require(all(v == got for v in al), "pauc:alias-axes",
                    lambda: f"{ctx}: auc({a!r},{b!r}) = {got!r} on fpr/tpr but {al} on far/tar, far/tpr, fpr/tar")
            al2 = (float(obj.auc(L(a), L(b), y_axis="frr")), float(obj.auc(L(1 - b), L(1 - a), x_axis="trr")))
            require(al2 == (yc, xc), "pauc:alias-axes",
                    lambda: f"{ctx}: y=frr gives {al2[0]!r} (fnr: {yc!r}), x=trr gives {al2[1]!r} (tnr: {xc!r})")
        require(abs(areas[(lo, mid)] + areas[(mid, up)] - areas[(lo, up)])
                <= (1e-9 if stratum == "general" else 1e-9 * areas[(lo, up)] + 1e-24),
                "pauc:additivity", lambda: f"{ctx}: {areas}")
        full = float(step_area(pos, neg, ep, en, sc, F(0), F(1)))
        sw = float(obj.auc(x_axis="tpr", y_axis="fpr"))
        require(abs(sw - (1 - full)) <= 1e-9, "pauc:swap-axes", f"{ctx}: {sw!r} vs {1 - full!r}")
        sw2 = float(obj.auc(x_axis="tar", y_axis="far"))
        require(sw2 == sw, "pauc:alias-axes", f"{ctx}: x=tar,y=far gives {sw2!r}, x=tpr,y=fpr gives {sw!r}")
    if 0 < lo < up < 1:
        inside = True
    lo_p, hi_p, lo_n, hi_n = min(pos), max(pos), min(neg), max(neg)
    overlap = not (lo_p > hi_n or hi_p < lo_n)
    if stratum != "general":
        inside = True
    return dict(nontrivial=overlap and inside, labels=(["easy"] if ep or en else []) + [f"stratum:{stratum}", f"limits:{kind}", f"container:{s.get('container')}"])


PROP = Prop(
    id="C07",
    rule=("Full AUC: Hypothesis score sets with both classes non-empty, arbitrary ties (grid mode "
          "with small value ranges makes cross-class ties at the extreme ends frequent - label "
          "cross-tie-at-extreme), easy counts 0..200, 4 configs per case; oracle = exact rational "
          "Mann-Whitney statistic (1e-12). Partial AUC: within-class ties, no cross-class ties "
          "(every distinct value owned by one class), three sorted limits from the FPR grid k/Nn, "
          "arbitrary floats and fixed fractions; oracle = exact rational step-ROC area over "
          "[lo,up],[lo,mid],[mid,up],[0,1] (1e-9), additivity, <= width, y-complement, mirrored "
          "x-complement, swapped axes. Non-trivial = classes overlap (and 0<lo<up<1 for partial)."),
    clauses=[
        Clause("full_auc", check_full, strategy=lambda tier: _full_cases(10 if tier == "quick" else 40), quick=700, thorough=12000,
               quick_shards=3, min_nontrivial=100, doc="auc() = Mann-Whitney incl. ties"),
        Clause("partial_auc", check_partial, strategy=_partial_cases(), quick=350, thorough=6000,
               quick_shards=3, min_nontrivial=50, doc="partial AUC = exact step area and corollaries"),
    ],
)

RULE_EXTRA = ('score containers as in C02; easy counts up to 2^40. Integration limits as float32 / float16 scalars; the alias axes far / tar / frr / trr; byte-swapped arrays.')
