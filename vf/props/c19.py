"""C19 - FraudScores is a faithful, validated genuine/fraud view of Scores."""

from __future__ import annotations

import warnings

import numpy as np
from hypothesis import strategies as st

from .. import gen
from ..harness import Clause, Prop, require
from ..oracles import METRICS

_INSIDE = st.one_of(st.sampled_from([0.0, 1.0, 0.0, 1.0, 0.5, -0.0]),
                    st.integers(0, 100).map(lambda k: k / 100),
                    st.floats(min_value=0.0, max_value=1.0))
_OUTSIDE = st.sampled_from([-1e-9, 1 + 1e-9, -0.5, 1.5, -1e-300, 1.0000000000000002, 7.0, -3.0])


@st.composite
def _cases(draw):
    n, m = draw(st.integers(0, 8)), draw(st.integers(0, 8))
    dtype = draw(st.sampled_from(["float", "float", "float", "int", "uint8", "bool", "float32", "float32r", "float16",
                                  "longdouble"]))
    if dtype in ("int", "uint8", "bool"):
        g = draw(st.lists(st.integers(0, 1), min_size=n, max_size=n))
        f = draw(st.lists(st.integers(0, 1), min_size=m, max_size=m))
    elif dtype in ("float32", "float16", "longdouble"):
        g = [k / 64 for k in draw(st.lists(st.integers(0, 64), min_size=n, max_size=n))]
        f = [k / 64 for k in draw(st.lists(st.integers(0, 64), min_size=m, max_size=m))]
    elif dtype == "float32r":
        # arbitrary single-precision values (midpoints between two of them need not be one)
        g = [float(np.float32(x)) for x in draw(st.lists(st.floats(min_value=0.0, max_value=1.0), min_size=n, max_size=n))]
        f = [float(np.float32(x)) for x in draw(st.lists(st.floats(min_value=0.0, max_value=1.0), min_size=m, max_size=m))]
    else:
        g = draw(st.lists(_INSIDE, min_size=n, max_size=n))
        f = draw(st.lists(_INSIDE, min_size=m, max_size=m))
    if draw(st.integers(0, 3)) == 0 and n and m:
        # perfectly separated classes, in either direction
        allv = sorted(g + f)
        g, f = (allv[m:], allv[:m]) if draw(st.booleans()) else (allv[:n], allv[n:])
    bad = draw(st.sampled_from(["none", "none", "none", "genuine", "fraud"]))
    if dtype == "bool":
        bad = "none"
    outside = _OUTSIDE if dtype == "float" else (st.sampled_from([2, 7, 255]) if dtype == "uint8" else
                                                 st.sampled_from([-1, 2]) if dtype == "int" else
                                                 st.sampled_from([-0.5, 1.5, 2.0, -1.0]))
    bad_at = None
    if bad == "genuine" and n:
        bad_at = draw(st.integers(0, n - 1))
        g[bad_at] = draw(outside)
    if bad == "fraud" and m:
        bad_at = n + draw(st.integers(0, m - 1))
        f[bad_at - n] = draw(outside)
    # a missing (NaN) score somewhere must not hide an out-of-range one
    nan_at = None
    if dtype == "float" and draw(st.integers(0, 3)) == 0 and n + m > 0:
        nan_at = draw(st.integers(0, n + m - 1))
        if bad_at is not None and draw(st.booleans()):
            # ... in particular not one in the same class
            lo_, hi_ = (0, n) if bad_at < n else (n, n + m)
            others = [i for i in range(lo_, hi_) if i != bad_at]
            if others:
                nan_at = others[draw(st.integers(0, len(others) - 1))]
    thr = draw(gen.shaped_thresholds([float(x) for x in g + f], shapes=[(), (3,), (2, 2), (0,)], mag=2.0))
    targets = draw(st.lists(gen.target_values([max(n, 1), max(m, 1), max(n + m, 1)]), min_size=1, max_size=4))
    ld_bad = None
    if dtype == "longdouble" and bad_at is not None and draw(st.booleans()):
        # outside [0,1] by less than double precision can express: the neighbour of 1 in extended precision,
        # a negative number below the double subnormals; the value at bad_at is replaced by it in check()
        ld_bad = draw(st.sampled_from(["above-one", "below-zero"]))
    return dict(g=g, f=f, dtype=dtype, ld_bad=ld_bad, bad_at=bad_at, nan_at=nan_at, eg=draw(st.sampled_from([0, 0, 3, 40])),
                ef=draw(st.sampled_from([0, 0, 2, 25])), sc=draw(st.sampled_from(["genuine", "fraud"])),
                sc_enum=draw(st.booleans()), thr=thr, targets=targets, order=draw(st.integers(0, 10**6)))


def _same(a, b):
    a, b = np.asarray(a), np.asarray(b)
    return a.shape == b.shape and np.array_equal(a, b, equal_nan=True)


def check(case):
    from score_analysis import Scores
    from score_analysis.applications import DocLabel, FraudScores, binary_to_doc_label, doc_to_binary_label

    warnings.simplefilter("ignore")
    dt = {"int": int, "uint8": np.uint8, "bool": bool, "float32": np.float32, "float32r": np.float32,
          "float16": np.float16, "longdouble": np.longdouble}.get(case["dtype"], float)
    g, f = np.asarray(case["g"], dtype=dt), np.asarray(case["f"], dtype=dt)
    outside = any((x < 0) or (x > 1) for x in case["g"] + case["f"])
    if case.get("ld_bad") and np.finfo(np.longdouble).nmant > 52:
        v = np.nextafter(np.longdouble(1), np.longdouble(2)) if case["ld_bad"] == "above-one" \
            else -(np.longdouble(2) ** -1100)
        k = case["bad_at"]
        if k < len(g):
            g[k] = v
        else:
            f[k - len(g)] = v
        case = dict(case, g=[str(x) for x in g], f=[str(x) for x in f])  # for the messages only
    if case.get("nan_at") is not None:
        k = case["nan_at"]
        if k < len(g):
            g[k] = np.nan
        else:
            f[k - len(g)] = np.nan
        vals = [x for x in g.tolist() + f.tolist() if x == x]
        outside = any((x < 0) or (x > 1) for x in vals)
        try:
            FraudScores(genuines=g, frauds=f, nb_easy_genuines=case["eg"], nb_easy_frauds=case["ef"],
                        score_class=case["sc"])
            raised = False
        except ValueError:
            raised = True
        # whether a NaN alone is "outside [0,1]" is not stated: only the other direction is asserted
        require(raised or not outside, "fraud:validation",
                f"genuines={g.tolist()} frauds={f.tolist()}: accepted although a score lies outside [0,1]")
        return dict(nontrivial=outside, labels=["with-nan"])
    sc_arg = DocLabel(case["sc"]) if case["sc_enum"] else case["sc"]
    ctx = f"genuines={case['g']} frauds={case['f']} score_class={case['sc']}"
    try:
        fs = FraudScores(genuines=g, frauds=f, nb_easy_genuines=case["eg"], nb_easy_frauds=case["ef"],
                         score_class=sc_arg)
        raised = False
    except ValueError:
        raised = True
    require(raised == outside, "fraud:validation",
            f"{ctx}: {'rejected' if raised else 'accepted'} although {'a' if outside else 'no'} score lies outside [0,1]")
    # the label translations are mutually inverse on all four values
    for lab in ("genuine", "fraud", DocLabel.pos, DocLabel.neg):
        require(binary_to_doc_label(doc_to_binary_label(lab)) == DocLabel(lab), "fraud:label-translation", str(lab))
    for lab in ("pos", "neg"):
        require(doc_to_binary_label(binary_to_doc_label(lab)).value == lab, "fraud:label-translation", lab)
    require(doc_to_binary_label("genuine").value == "pos" and doc_to_binary_label("fraud").value == "neg",
            "fraud:label-translation", "genuine<->pos")
    if raised:
        # the alternative constructor validates like the constructor
        if len(g) + len(f):
            lab = np.asarray([5] * len(g) + [2] * len(f))
            try:
                FraudScores.from_labels(lab, np.concatenate([g, f]), genuine_label=5, score_class=sc_arg)
                accepted = True
            except ValueError:
                accepted = False
            require(not accepted, "fraud:validation",
                    f"{ctx}: from_labels accepted scores that the constructor rejects (a score lies outside [0,1])")
        return dict(nontrivial=True, labels=["rejected"])
    ref = Scores(g, f, nb_easy_pos=case["eg"], nb_easy_neg=case["ef"],
                 score_class={"genuine": "pos", "fraud": "neg"}[case["sc"]], equal_class="pos")
    require(fs.score_class.value == ref.score_class.value and fs.equal_class.value == "pos", "fraud:flags", ctx)
    require(fs.nb_easy_pos == case["eg"] and fs.nb_easy_neg == case["ef"], "fraud:easy-counts", ctx)
    require(_same(fs.genuines, ref.pos) and _same(fs.frauds, ref.neg) and fs.genuines is fs.pos
            and fs.frauds is fs.neg, "fraud:alias", ctx)
    thr = gen.np_array(case["thr"]["flat"], tuple(case["thr"]["shape"]))
    require(_same(fs.cm(thr).matrix, ref.cm(thr).matrix), "fraud:cm", f"{ctx} at {thr.tolist()}")
    for m in METRICS:
        require(_same(getattr(fs, m)(thr), getattr(ref, m)(thr)), "fraud:rate", f"{ctx}: {m}")
    rs = np.asarray(case["targets"], dtype=float)
    n, m_ = len(case["g"]), len(case["f"])
    for m in METRICS:
        rel = {"tpr": n, "fnr": n, "tnr": m_, "fpr": m_}.get(m, n + m_)
        if rel == 0:
            continue
        for meth in ("linear", "lower", "higher"):
            require(_same(getattr(fs, "threshold_at_" + m)(rs, method=meth),
                          getattr(ref, "threshold_at_" + m)(rs, method=meth)), "fraud:threshold",
                    f"{ctx}: threshold_at_{m} {meth} {rs.tolist()}")
    # the general threshold search, on all scores and on a grid spanning them
    if len(set(map(float, case["g"] + case["f"]))) >= 2:
        for mname in ("fpr", "topr", "frr"):
            rel = {"fpr": m_, "frr": n}.get(mname, n + m_)
            if rel == 0:
                continue
            for pts in (None, 3, 8):
                a_ = fs.threshold_at_metric(rs, mname, pts)
                b_ = ref.threshold_at_metric(rs, mname, pts)
                require(len(a_) == len(b_) and all(_same(x, y) for x, y in zip(a_, b_)), "fraud:threshold",
                        lambda: f"{ctx}: threshold_at_metric({rs.tolist()}, {mname!r}, {pts}) gives "
                                f"{[np.ravel(x).tolist() for x in a_]}, Scores gives {[np.ravel(x).tolist() for x in b_]}")
    # comparisons are queries, too
    other = Scores(g, f, nb_easy_pos=case["eg"] + 1, nb_easy_neg=case["ef"], score_class=ref.score_class.value,
                   equal_class="pos")
    for x, nm in ((ref, "an equal Scores object"), (other, "a different Scores object"), (fs, "itself")):
        require((fs == x) == (ref == x) and (x == fs) == (x == ref), "fraud:equality",
                f"{ctx}: comparison with {nm}: FraudScores says {fs == x} / {x == fs}, Scores says {ref == x} / {x == ref}")
    require(fs.swap() == ref.swap() and fs.swap().swap() == fs, "fraud:equality", f"{ctx}: swap()")
    if n and m_:
        require(_same(np.asarray(fs.eer()), np.asarray(ref.eer())), "fraud:eer",
                f"{ctx}: eer() {fs.eer()} vs Scores {ref.eer()}")
        require(_same(fs.auc(), ref.auc()) and _same(fs.auc(0.1, 0.7), ref.auc(0.1, 0.7)), "fraud:auc", ctx)
    # from_labels splits by the genuine label
    sco = np.concatenate([g, f])
    perm = np.random.RandomState(case["order"]).permutation(n + m_)
    for gl, fl_ in ((5, 2), (0, 1), (True, False), (False, True), ("g", "f"), ("", "x"), (0.1, 0.7), (0.2, 0.1)):
        lab = np.asarray([gl] * n + [fl_] * m_) if n + m_ else np.asarray([], dtype=type(gl))
        if isinstance(gl, float):
            # single / half precision label column, the genuine label written as a Python number
            lab = lab.astype(np.float32 if gl == 0.1 else np.float16)
        fl = FraudScores.from_labels(lab[perm], sco[perm], genuine_label=gl, score_class=sc_arg,
                                     nb_easy_genuines=case["eg"], nb_easy_frauds=case["ef"])
        require(isinstance(fl, FraudScores) and fl == fs, "fraud:from-labels",
                f"{ctx}: labels {gl!r}/{fl_!r} with genuine_label={gl!r}")
    # labels and scores handed over as a column, a row or a grid (a boolean mask selects from any shape)
    if n + m_:
        lab = np.asarray([5] * n + [2] * m_)
        shapes = [(n + m_, 1), (1, n + m_)] + ([(2, (n + m_) // 2)] if (n + m_) % 2 == 0 else [])
        for shp in shapes:
            fl = FraudScores.from_labels(lab[perm].reshape(shp), sco[perm].reshape(shp), genuine_label=5,
                                         score_class=sc_arg, nb_easy_genuines=case["eg"], nb_easy_frauds=case["ef"])
            require(isinstance(fl, FraudScores) and fl == fs, "fraud:from-labels",
                    f"{ctx}: labels and scores of shape {shp}")
    # the library's own label type as labels (object array and plain list)
    if n + m_:
        lab = np.asarray([DocLabel.pos] * n + [DocLabel.neg] * m_, dtype=object)
        for container in (lab[perm], lab[perm].tolist()):
            fl = FraudScores.from_labels(container, sco[perm], genuine_label=DocLabel.pos, score_class=sc_arg,
                                         nb_easy_genuines=case["eg"], nb_easy_frauds=case["ef"])
            require(isinstance(fl, FraudScores) and fl == fs, "fraud:from-labels",
                    f"{ctx}: DocLabel members as labels ({type(container).__name__}) with genuine_label=DocLabel.pos: "
                    f"{len(fl.genuines)} genuines, {len(fl.frauds)} frauds")
    # assignment through the setters reaches pos / neg
    fs2 = FraudScores(genuines=g, frauds=f, score_class=sc_arg)
    if n + m_ >= 2 and len(set(map(float, case["g"] + case["f"]))) >= 2:
        # queries before the assignment (anything they remember must not outlive it)
        fs2.threshold_at_topr(0.5), fs2.threshold_at_tonr(0.5), fs2.threshold_at_metric(0.5, "topr")
        if n and m_:
            fs2.eer(), fs2.auc()
    newg = np.asarray([0.25, 0.75])
    fs2.genuines = newg
    fs2.frauds = newg[::-1]
    require(fs2.pos is newg and _same(fs2.neg, newg[::-1]) and fs2.genuines is newg, "fraud:setter", ctx)
    # ... and the queries of the object follow the newly assigned arrays
    fs2.frauds = np.sort(newg[::-1])
    ref2 = Scores(newg, np.sort(newg[::-1]), score_class={"genuine": "pos", "fraud": "neg"}[case["sc"]],
                  equal_class="pos")
    tq = np.asarray([0.25, 0.5, 0.75, 1.0])
    require(_same(fs2.cm(tq).matrix, ref2.cm(tq).matrix), "fraud:setter-queries", f"{ctx}: cm after assignment")
    for m in ("fnr", "fpr", "tpr", "tnr"):
        require(_same(getattr(fs2, "threshold_at_" + m)(np.asarray([0.3, 0.5])),
                      getattr(ref2, "threshold_at_" + m)(np.asarray([0.3, 0.5]))), "fraud:setter-queries",
                f"{ctx}: threshold_at_{m} after assignment through the setters")
    require(_same(np.asarray(fs2.eer()), np.asarray(ref2.eer())), "fraud:setter-queries", f"{ctx}: eer")
    for q in (lambda o: o.threshold_at_topr(np.asarray([0.3, 0.6])), lambda o: o.threshold_at_tonr(0.4),
              lambda o: np.concatenate([np.ravel(z) for z in o.threshold_at_metric(np.asarray([0.3, 0.6]), "topr")]),
              lambda o: o.auc()):
        require(_same(q(fs2), q(ref2)), "fraud:setter-queries",
                f"{ctx}: a query after assignment through the setters differs from a fresh object")
    # the aliases are assignment targets like pos / neg: construction validates the range, assignment
    # does not (scores rescaled to percent afterwards, say)
    far = np.asarray([-0.5, 150.0])
    fs3, ref3 = FraudScores(genuines=g, frauds=f, score_class=sc_arg), Scores(g, f, score_class=ref.score_class.value, equal_class="pos")
    try:
        fs3.genuines = far
        fs3.frauds = far[::-1].copy()
    except ValueError as e:
        require(False, "fraud:setter", f"{ctx}: assignment through the alias raised {e!r} (pos / neg accept it)")
    ref3.pos, ref3.neg = far, far[::-1].copy()
    require(fs3.pos is far and _same(fs3.cm(tq).matrix, ref3.cm(tq).matrix), "fraud:setter", f"{ctx}: after assigning {far.tolist()}")
    edge = any(float(x) in (0.0, 1.0) for x in case["g"] + case["f"])
    return dict(nontrivial=bool(n and m_ and edge), labels=["accepted", f"dtype:{case['dtype']}"])


# ------------------------------------------------------------------ seeded bootstrap results
def _boot_cases(tier):
    sizes = [(12, 9), (300, 400), (12_000, 500)] if tier == "quick" else \
        [(12, 9), (300, 400), (12_000, 500), (700, 25_000), (30_000, 30_000)]
    for k, (n, m) in enumerate(sizes):
        for sc in ("genuine", "fraud"):
            yield dict(n=n, m=m, sc=sc, seed=11 + k)


def check_seeded_bootstrap(case):
    """A script that seeds the global RNG, builds the object and bootstraps gets what the same
    script with a plain Scores object gets (construction consumes no randomness)."""
    from score_analysis import BootstrapConfig, Scores
    from score_analysis.applications import FraudScores

    warnings.simplefilter("ignore")
    rs = np.random.RandomState(case["seed"])
    g = rs.randint(0, 1001, size=case["n"]) / 1000.0
    f = rs.randint(0, 1001, size=case["m"]) / 1000.0
    cfg = BootstrapConfig(nb_samples=4, bootstrap_method="quantile", sampling_method="replacement")
    # ... and with smoothing, whose noise moves scores next to 0 and 1 out of [0,1] in both objects alike
    cfg_s = BootstrapConfig(nb_samples=4, bootstrap_method="quantile", sampling_method="replacement", smoothing=True)
    out = []
    for kind in ("fraud", "plain"):
        np.random.seed(case["seed"])
        if kind == "fraud":
            o = FraudScores(genuines=g, frauds=f, score_class=case["sc"])
        else:
            o = Scores(g, f, score_class={"genuine": "pos", "fraud": "neg"}[case["sc"]], equal_class="pos")
        res = [np.asarray(o.bootstrap_ci("fnr", alpha=0.1, config=cfg, threshold=np.asarray([0.3, 0.6]))),
               np.asarray(o.bootstrap_metric("eer", config=cfg))]
        if case["n"] <= 1000:
            smp = o.bootstrap_sample(cfg_s)
            res += [smp.pos, smp.neg, np.asarray(o.bootstrap_metric("fpr", config=cfg_s, threshold=np.asarray([0.0, 0.01, 0.99, 1.0])))]
        out.append(res)
    require(len(out[0]) == len(out[1]) and all(_same(a, b) for a, b in zip(out[0], out[1])), "fraud:seeded-bootstrap",
            f"n={case['n']} m={case['m']} score_class={case['sc']}: seeded bootstrap results differ from Scores")
    return dict(nontrivial=True, labels=[f"n>={min(case['n'], case['m'])}"])


PROP = Prop(
    id="C19",
    rule=("Hypothesis: genuine/fraud arrays of 0-8 scores (floats inside [0,1] with 0, 1 and -0.0 "
          "over-represented, or int 0/1 arrays), in 40% of cases one value replaced by one outside "
          "(-1e-9, 1+1e-9, -1e-300, 1+ulp, ...), easy counts, score_class as string or DocLabel, "
          "shaped thresholds, targets. Oracle: ValueError iff some score <0 or >1 (both directions); "
          "otherwise every query (cm, 6 rates, threshold_at_* x 3 methods, eer, full and partial "
          "auc) equals the same query on Scores(pos=genuines, neg=frauds, translated score_class, "
          "equal_class='pos') exactly; genuines/frauds alias pos/neg (also after assignment through "
          "the setters); from_labels == direct construction from the split; label translations "
          "mutually inverse on all four values. Non-trivial = rejected, or accepted with both "
          "classes non-empty and a score exactly 0 or 1."),
    clauses=[Clause("seeded_bootstrap", check_seeded_bootstrap, kind="enum", cases=_boot_cases, quick_shards=3,
                    shards=5, min_nontrivial=2, doc="seed; construct; bootstrap == the same with Scores (9 to 3e4 scores)"),
             Clause("fraud_view", check, strategy=_cases(), quick=500, thorough=12500, quick_shards=4,
                    min_nontrivial=200, doc="validation iff out of range; differential vs Scores")],
)

RULE_EXTRA = ("uint8 / bool / float32 (dyadic and arbitrary) / float16 arrays; perfectly separated classes; threshold_at_metric on all scores and on grids; == / swap() against Scores; a NaN next to an out-of-range value (only 'must raise' asserted); queries before and after assignment through the setters. Labels and scores as column / row / grid; long-double scores outside [0,1] by less than double precision; float32 / float16 label columns with a Python-float genuine label. from_labels must reject what the constructor rejects.")
