"""C14 - bootstrapped metrics / intervals are what the sampler and the CI formula produce."""

from __future__ import annotations

import numpy as np
from hypothesis import strategies as st

from .. import gen
from ..harness import Clause, Prop, require, rt

CI_METHODS = ["quantile", "bc", "bca"]
SMOOTH = [("replacement+smoothing", None), ("dynamic+smoothing", "by_label")]
BUILTIN = SMOOTH + [("replacement", None), ("replacement", "by_label"), ("single_pass", None),
           ("single_pass", "by_label"), ("dynamic", None), ("dynamic", None), ("proportion", None),
           # "by_group ... Defaults to non-stratified sampling, if no groups are present."
           ("replacement", "by_group"), ("single_pass", "by_group"), ("dynamic", "by_group")]
GROUP_BUILTIN = [("replacement", None), ("replacement", "by_label"), ("replacement", "by_group"),
                 ("single_pass", None), ("dynamic", "by_group")]


# metric specs: name -> (callable or method name, kwargs builder)
def _metric(spec, thr, k, d=None):
    """Returns (metric argument, kwargs, reference function(obj) -> array)."""
    name = spec
    if name in ("tpr", "fnr", "tnr", "fpr", "topr", "tonr", "group_fpr", "group_tnr", "group_fnr"):
        kw = dict(threshold=thr)
        return name, kw, lambda o: np.asarray(getattr(o, name)(thr))
    if name == "threshold_at_fnr":
        kw = dict(fnr=np.asarray([0.25, 0.5]), method="lower")
        return name, kw, lambda o: np.asarray(o.threshold_at_fnr(np.asarray([0.25, 0.5]), method="lower"))
    if name in ("threshold_at_tpr", "threshold_at_tnr", "threshold_at_topr", "threshold_at_tar"):
        # the targets are handed over as one float64 array that every evaluation receives
        arg = {"threshold_at_tar": "tar"}.get(name, name.split("_")[-1])
        kw = {arg: np.asarray([0.25, 0.5, 0.8])}
        return name, kw, lambda o: np.asarray(getattr(o, name)(np.asarray([0.25, 0.5, 0.8])))
    if name in ("sub-added", "sub-redefined"):
        # metrics of a user subclass (see _build): one it adds, one it redefines (FNR in percent);
        # names are resolved on the class of the object that is bootstrapped
        mname = "miss_percent" if name == "sub-added" else "fnr"
        return mname, dict(threshold=thr), lambda o: np.asarray(100.0 * np.asarray(_plain_fnr(o, thr)))
    if name == "auc":
        kw = dict(lower=0.0, upper=0.5)
        return name, kw, lambda o: np.asarray(o.auc(0.0, 0.5))
    if name == "eer":
        return name, {}, lambda o: np.asarray(o.eer())
    if name == "call-scalar":
        f = lambda s, t, k: k * s.fnr(t)  # noqa: E731
        return f, dict(t=float(thr.reshape(-1)[0]) if thr.size else 0.0, k=k), \
            lambda o: np.asarray(k * o.fnr(float(thr.reshape(-1)[0]) if thr.size else 0.0))
    if name == "call-vector":
        f = lambda s, threshold, k: k * s.tpr(threshold)  # noqa: E731
        return f, dict(threshold=thr, k=k), lambda o: np.asarray(k * o.tpr(thr))
    if name == "call-matrix":
        ki = int(k) if abs(k) >= 1 else 3
        f = lambda s, threshold, k: k * s.cm(threshold).matrix  # noqa: E731
        return f, dict(threshold=thr, k=ki), lambda o: np.asarray(ki * o.cm(thr).matrix)
    if name == "call-matrix-T":
        # the same counts handed back as a transposed view / in Fortran order: index order != memory order
        ki = int(k) if abs(k) >= 1 else 3
        if ki % 2:
            f = lambda s, threshold, k: (k * s.cm(threshold).matrix).T  # noqa: E731
        else:
            f = lambda s, threshold, k: np.asfortranarray((k * s.cm(threshold).matrix).T)  # noqa: E731
        return f, dict(threshold=thr, k=ki), lambda o: np.ascontiguousarray((ki * o.cm(thr).matrix).T)
    if name == "call-ppv":
        # undefined (NaN) on samples without a predicted positive at the threshold
        f = lambda s, threshold: s.cm(threshold).ppv()  # noqa: E731
        return f, dict(threshold=thr), lambda o: np.asarray(o.cm(thr).ppv())
    if name == "call-int-at-origin":
        # a clipped difference: the Python int 0 on the original scores, a float on most samples
        c = float(np.mean(d["pos"])) if d else 0.0
        f = lambda s, c, k: max(0, (float(np.mean(s.pos)) - c) / 3.0)  # noqa: E731
        return f, dict(c=c, k=k), lambda o: np.asarray(max(0, (float(np.mean(o.pos)) - c) / 3.0), dtype=float)
    if name == "call-buffer":
        # an out=-style metric: fills one pre-allocated array and returns it (every call the same object)
        buf = np.zeros(thr.shape)

        def into_buffer(s, threshold):
            np.copyto(buf, s.fnr(threshold))
            return buf

        return into_buffer, dict(threshold=thr), lambda o: np.array(o.fnr(thr), dtype=float, copy=True)
    if name == "call-named-like-method":
        # a user function that happens to be called like a method of the class; it is the function
        # that was passed, not the method, that has to be bootstrapped
        def auc(s, upper):
            return s.auc(0.0, upper) / upper

        return auc, dict(upper=0.5), lambda o: np.asarray(o.auc(0.0, 0.5) / 0.5)
    if name == "call-named-like-rate":
        def fpr(s, threshold, k):
            return k * s.fnr(threshold)

        return fpr, dict(threshold=thr, k=k), lambda o: np.asarray(k * o.fnr(thr))
    if name == "call-mean":
        f = lambda s: np.asarray([s.pos.mean(), s.neg.mean()])  # noqa: E731
        return f, {}, lambda o: np.asarray([o.pos.mean(), o.neg.mean()])
    raise ValueError(name)


SCORE_METRICS = ["tpr", "fnr", "fpr", "tonr", "threshold_at_fnr", "threshold_at_tpr", "threshold_at_tnr",
                 "threshold_at_topr", "threshold_at_tar", "auc", "eer", "call-scalar",
                 "call-vector", "call-vector", "call-scalar", "call-matrix", "call-matrix-T", "call-matrix-T", "call-mean", "call-ppv", "call-ppv",
                 "call-buffer", "call-buffer", "call-named-like-method", "call-named-like-rate", "call-int-at-origin",
                 "call-int-at-origin"]
GROUP_METRICS = ["group_fpr", "group_tnr", "group_fnr", "fnr", "call-vector", "call-mean"]


@st.composite
def _objects(draw, grouped=None):
    n, m = draw(st.integers(2, 10)), draw(st.integers(2, 10))
    ks = draw(st.lists(st.integers(-60, 60), min_size=n + m, max_size=n + m, unique=True))
    vals = [k / 4 for k in ks]
    sc, ec = draw(gen.CONFIG)
    if grouped is None:
        grouped = draw(st.booleans())
    d = dict(pos=vals[:n], neg=vals[n:], sc=sc, ec=ec, ep=0, en=0, groups=None)
    if grouped:
        g = st.sampled_from(["a", "b"])
        pg = draw(st.lists(g, min_size=n, max_size=n))
        ng = draw(st.lists(g, min_size=m, max_size=m))
        # both groups present in both classes (single-pass by_group needs non-empty strata)
        pg[0], pg[1], ng[0], ng[1] = "a", "b", "a", "b"
        d["groups"] = dict(pg=pg, ng=ng)
    else:
        ez = st.sampled_from([0, 0, 2, 7])
        d["ep"], d["en"] = draw(ez), draw(ez)
    return d


def _plain_fnr(o, thr):
    from score_analysis import Scores

    return Scores.fnr(o, thr)


_SUBCLASS = {}


def _subclass():
    """A user subclass of Scores that adds a metric and redefines one."""
    if "cls" not in _SUBCLASS:
        from score_analysis import Scores

        class ClinicScores(Scores):
            def miss_percent(self, threshold):
                return 100.0 * np.asarray(Scores.fnr(self, threshold))

            def fnr(self, threshold):  # this application reports the miss rate in percent
                return 100.0 * np.asarray(Scores.fnr(self, threshold))

        _SUBCLASS["cls"] = ClinicScores
    return _SUBCLASS["cls"]


def _build(d, shift=0.0):
    from score_analysis import GroupScores, Scores

    if d.get("subclass"):
        Scores = _subclass()

    pos = np.asarray(d["pos"], dtype=float) + shift
    neg = np.asarray(d["neg"], dtype=float) + shift
    if d["groups"]:
        return GroupScores(pos, neg, pos_groups=np.asarray(d["groups"]["pg"]),
                           neg_groups=np.asarray(d["groups"]["ng"]), score_class=d["sc"],
                           equal_class=d["ec"])
    return Scores(pos, neg, nb_easy_pos=d["ep"], nb_easy_neg=d["en"], score_class=d["sc"],
                  equal_class=d["ec"])


@st.composite
def _cases(draw):
    d = draw(_objects())
    metrics = GROUP_METRICS if d["groups"] else SCORE_METRICS
    spec = draw(st.sampled_from(metrics))
    if not d["groups"] and draw(st.integers(0, 7)) == 0:
        spec = draw(st.sampled_from(["sub-added", "sub-redefined"]))
        d["subclass"] = True
    shape = draw(st.sampled_from([(), (1,), (3,), (2, 2)]))
    thr = draw(gen.threshold_values(d["pos"] + d["neg"], gen.shape_size(shape), allow_inf=False))
    builtin = draw(st.sampled_from(GROUP_BUILTIN if d["groups"] else BUILTIN))
    return dict(d=d, metric=spec, thr=dict(shape=list(shape), flat=thr),
                k=draw(st.sampled_from([2.0, 3.0, -1.0, 1e-5, 1e-8, 1e6])),
                nb=draw(st.integers(1, 12)), builtin=list(builtin), ratio=draw(st.sampled_from([0.5, 0.8])),
                seed=draw(gen.RNG_SEED), seed2=draw(gen.RNG_SEED),
                alpha=draw(st.sampled_from([0.05, 0.1, 0.3, 0.5])), ci=draw(st.sampled_from(CI_METHODS)),
                alpha_vec=draw(st.one_of(st.none(), st.lists(st.sampled_from([0.01, 0.05, 0.2, 0.5, 0.9]),
                                                             min_size=1, max_size=3))),
                # run-time setting of the documented dynamic switch (plain Scores; None = shipped 100)
                callable_kind=draw(st.sampled_from(gen.CALLABLE_KINDS)),
                switch=None if d["groups"] else draw(st.sampled_from([None, None, 3, 5, 8])))


def _eq(a, b):
    a, b = np.asarray(a), np.asarray(b)
    return a.shape == b.shape and np.array_equal(a, b, equal_nan=True)


def check(case):
    import score_analysis.scores as sa_scores

    shipped = sa_scores.SINGLE_PASS_SAMPLE_THRESHOLD
    if case.get("switch") is not None:
        sa_scores.SINGLE_PASS_SAMPLE_THRESHOLD = case["switch"]
    try:
        return _check(case, case.get("switch") or shipped)
    finally:
        sa_scores.SINGLE_PASS_SAMPLE_THRESHOLD = shipped


def _check(case, switch):
    from score_analysis import BootstrapConfig, utils

    d = case["d"]
    o = _build(d)
    thr = gen.np_array(case["thr"]["flat"], tuple(case["thr"]["shape"]))
    metric, kw, ref = _metric(case["metric"], thr, case["k"], d)
    ck = case.get("callable_kind", "function")
    if str(case["metric"]).startswith("call-named"):
        ck = "function"  # the point of these specs is the function's own name
    if not isinstance(metric, str):
        metric = gen.wrap_callable(metric, ck)  # callables come in many shapes
    nb = case["nb"]
    theta_hat = ref(o)
    ctx = f"metric={case['metric']} nb_samples={nb} object={'GroupScores' if d['groups'] else 'Scores'}"

    # --- 1. counting sampler: the j-th call shifts all scores by j+1
    calls = []

    def counting(source):
        calls.append(source)
        return _build(d, shift=float(len(calls)))

    rows = o.bootstrap_metric(metric, config=BootstrapConfig(nb_samples=nb, sampling_method=gen.wrap_callable(counting, ck)), **kw)
    require(len(calls) == nb, "bm:sampler-calls", f"{ctx}: sampler called {len(calls)} times")
    require(all(c is o for c in calls), "bm:sampler-source", f"{ctx}: sampler not given the object itself")
    require(rows.shape == (nb,) + theta_hat.shape, "bm:shape",
            f"{ctx}: {rows.shape} expected {(nb,) + theta_hat.shape}")
    for j in range(nb):
        exp = ref(_build(d, shift=float(j + 1)))
        require(_eq(rows[j], exp), "bm:row",
                lambda: f"{ctx}: row {j} = {np.asarray(rows[j]).tolist()} but metric of sample {j} = {exp.tolist()}")

    # --- 1b. a sampler that owns one scratch object and refills its score arrays on every draw (every call
    # hands back the same object, holding different scores)
    if not d["groups"]:
        scratch = _build(d, shift=0.0)
        base_p, base_n = scratch.pos.copy(), scratch.neg.copy()
        drawn = []

        def refilling(source):
            drawn.append(1)
            scratch.pos = base_p + float(len(drawn))
            scratch.neg = base_n + float(len(drawn))
            return scratch

        rows2 = o.bootstrap_metric(metric, config=BootstrapConfig(nb_samples=nb, sampling_method=refilling), **kw)
        for j in range(nb):
            exp = ref(_build(d, shift=float(j + 1)))
            require(_eq(rows2[j], exp), "bm:row",
                    lambda: f"{ctx}: sampler refilling one scratch object: row {j} = {np.asarray(rows2[j]).tolist()} but "
                            f"metric of sample {j} = {exp.tolist()}")

    # --- 2. built-in sampler: seeded replay by hand
    method, strat = case["builtin"]
    smoothing = method.endswith("+smoothing")
    cfg = BootstrapConfig(nb_samples=nb, sampling_method=rt(method.split("+")[0]), stratified_sampling=rt(strat),
                          ratio=case["ratio"] if method == "proportion" else None,
                          bootstrap_method=case["ci"], smoothing=smoothing)
    np.random.seed(case["seed"])
    rows_b = o.bootstrap_metric(metric, config=cfg, **kw)
    # the replay spells the configuration out where the documentation defines it by another one:
    # by_group on an object without groups = not stratified; dynamic = replacement below the
    # switch (or with smoothing), single pass above it
    r_method, r_strat = method.split("+")[0], strat
    if not d["groups"]:
        if r_strat == "by_group":
            r_strat = None
        n_, m_ = len(d["pos"]), len(d["neg"])
        if r_method == "dynamic" and n_ != switch and m_ != switch:
            r_method = "replacement" if (n_ < switch or m_ < switch or smoothing) else "single_pass"
    cfg_replay = BootstrapConfig(nb_samples=nb, sampling_method=r_method, stratified_sampling=r_strat,
                                 ratio=cfg.ratio, bootstrap_method=case["ci"], smoothing=smoothing)
    np.random.seed(case["seed"])
    def rebuilt(sample):
        # a grouped sample is rebuilt from its public arrays, so that nothing the sample carries besides them
        # (per-group caches) takes part in the reference
        if not d["groups"]:
            return sample
        from score_analysis import GroupScores

        return GroupScores(sample.pos.copy(), sample.neg.copy(), pos_groups=sample.pos_groups.copy(),
                           neg_groups=sample.neg_groups.copy(), group_names=list(sample.groups),
                           score_class=sample.score_class.value, equal_class=sample.equal_class.value)

    manual = [ref(rebuilt(o.bootstrap_sample(cfg_replay))) for _ in range(nb)]
    require(rows_b.shape == (nb,) + theta_hat.shape, "bm:shape", f"{ctx}: builtin {rows_b.shape}")
    for j in range(nb):
        require(_eq(rows_b[j], manual[j]), "bm:seeded-replay",
                lambda: f"{ctx} sampler={method}/{strat} seed={case['seed']}: row {j} "
                        f"{np.asarray(rows_b[j]).tolist()} vs replayed sample {manual[j].tolist()}")
    np.random.seed(case["seed"])
    again = o.bootstrap_metric(metric, config=cfg, **kw)
    require(_eq(again, rows_b), "bm:not-reproducible", f"{ctx}: same seed, different rows")

    # --- 3. bootstrap_ci = documented formula on those replicates with the original's metric
    def safe(f):
        try:
            return ("ok", f())
        except Exception as e:  # noqa
            return ("exc", type(e).__name__)

    np.random.seed(case["seed"])
    got = safe(lambda: o.bootstrap_ci(metric, alpha=case["alpha"], config=cfg, **kw))
    exp = safe(lambda: utils.bootstrap_ci(np.asarray(rows_b, dtype=float) if False else rows_b,
                                          theta_hat, case["alpha"], method=case["ci"]))
    if got[0] == "ok" and exp[0] == "ok":
        require(_eq(got[1], exp[1]), "bci:wiring",
                lambda: f"{ctx} ci={case['ci']}: bootstrap_ci {np.asarray(got[1]).tolist()} but formula "
                        f"on the replicates with the original's metric gives {np.asarray(exp[1]).tolist()}")
        require(np.asarray(got[1]).shape == theta_hat.shape + (2,), "bci:shape", f"{ctx}: {np.asarray(got[1]).shape}")
        # ... and the documented formula itself, re-implemented independently (see C13), applied
        # to those replicates with the original's metric as the point estimate
        from .c13 import reference

        R = np.asarray(rows_b, dtype=float).reshape((nb, -1))
        TH = np.asarray(theta_hat, dtype=float).reshape(-1)
        G = np.asarray(got[1], dtype=float).reshape((-1, 2))
        for j in range(R.shape[1]):
            col = R[:, j].tolist()
            fin = [x for x in col if x == x]
            if not fin or TH[j] != TH[j]:
                continue
            lo, up, _pole = reference(col, float(TH[j]), case["alpha"], case["ci"])
            if lo != lo:
                continue
            scale = max(abs(x) for x in fin) or 1.0  # relative to the replicates (metrics of any scale)
            require(abs(G[j, 0] - lo) <= 1e-9 * scale and abs(G[j, 1] - up) <= 1e-9 * scale,
                    "bci:not-the-documented-formula",
                    lambda: f"{ctx} ci={case['ci']} alpha={case['alpha']}: component {j}: bootstrap_ci "
                            f"{G[j].tolist()} but the documented formula on replicates {col} with estimate "
                            f"{TH[j]!r} gives [{lo!r}, {up!r}]")
    else:
        require(got == exp, "bci:wiring", f"{ctx}: {got} vs {exp}")

    # --- 3b. vector-valued alpha (documented for the quantile method): entry [.., z, :] is the
    # interval for alpha[z], i.e. what the scalar call gives
    if case["ci"] == "quantile" and case.get("alpha_vec"):
        av = np.asarray(case["alpha_vec"], dtype=float)
        np.random.seed(case["seed"])
        got_v = np.asarray(o.bootstrap_ci(metric, alpha=av, config=cfg, **kw))
        require(got_v.shape == theta_hat.shape + (len(av), 2), "bci:shape",
                f"{ctx}: alpha of shape {av.shape} gives {got_v.shape}")
        for z, a_ in enumerate(av.tolist()):
            np.random.seed(case["seed"])
            one = np.asarray(o.bootstrap_ci(metric, alpha=a_, config=cfg, **kw))
            require(_eq(got_v[..., z, :], one), "bci:alpha-vector",
                    lambda: f"{ctx}: entry for alpha[{z}]={a_!r} of the vector call {got_v[..., z, :].tolist()} "
                            f"differs from the scalar call {one.tolist()}")

    # --- 4. identity sampler collapses to the point estimate
    ident = BootstrapConfig(nb_samples=max(nb, 2), sampling_method=lambda s: s)
    if np.all(np.isfinite(np.asarray(theta_hat, dtype=float))):
        for cm_ in CI_METHODS:
            c = BootstrapConfig(nb_samples=max(nb, 2), sampling_method=lambda s: s, bootstrap_method=cm_)
            ci = np.asarray(o.bootstrap_ci(metric, alpha=case["alpha"], config=c, **kw))
            th = np.asarray(theta_hat, dtype=float)
            require(_eq(ci[..., 0], th) and _eq(ci[..., 1], th), "bci:identity",
                    lambda: f"{ctx} ci={cm_}: identity sampler gives {ci.tolist()} for estimate {th.tolist()}")
    labels = [f"metric:{case['metric']}", f"sampler:{method}/{strat}", f"ci:{case['ci']}"]
    if case.get("switch") is not None:
        labels.append(f"switch:{case['switch']}")
    labels.append(f"callable:{ck}")
    if np.isnan(np.asarray(rows_b, dtype=float)).any():
        labels.append("nan-replicates")
    return dict(nontrivial=nb >= 2, labels=labels)


# ------------------------------------------------------------------ clause: seeds differ
@st.composite
def _seed_cases(draw):
    n, m = draw(st.integers(8, 14)), draw(st.integers(8, 14))
    ks = draw(st.lists(st.integers(-60, 60), min_size=n + m, max_size=n + m, unique=True))
    return dict(pos=[k / 4 for k in ks[:n]], neg=[k / 4 for k in ks[n:]],
                s1=draw(gen.RNG_SEED), s2=draw(gen.RNG_SEED), nb=draw(st.integers(4, 8)),
                method=draw(st.sampled_from(["replacement", "single_pass"])))


def check_seeds(case):
    from score_analysis import BootstrapConfig, Scores

    if case["s1"] == case["s2"]:
        return dict(nontrivial=False, labels=["same-seed"])
    o = Scores(case["pos"], case["neg"])
    cfg = BootstrapConfig(nb_samples=case["nb"], sampling_method="replacement",
                          stratified_sampling="by_label")

    def metric(s):
        return np.concatenate([s.pos, s.neg])

    np.random.seed(case["s1"])
    a = o.bootstrap_metric(metric, config=cfg)
    np.random.seed(case["s2"])
    b = o.bootstrap_metric(metric, config=cfg)
    np.random.seed(case["s1"])
    a2 = o.bootstrap_metric(metric, config=cfg)
    require(np.array_equal(a, a2), "bm:not-reproducible", "same seed gave different replicates")
    require(not np.array_equal(a, b), "bm:seed-ignored",
            f"seeds {case['s1']} and {case['s2']} gave identical replicates")
    require(len({tuple(r) for r in a.tolist()}) > 1, "bm:rows-identical", "all bootstrap rows are equal")
    return dict(nontrivial=True, labels=[])


# ------------------------------------------------------------------ clause: sequences of configurations
SEQ_CONFIGS = [("dynamic", None, False), ("dynamic", None, True), ("dynamic", "by_label", False),
               ("replacement", None, False), ("replacement", None, True), ("single_pass", None, False),
               ("single_pass", "by_label", False)]


@st.composite
def _seq_cases(draw):
    big = draw(st.booleans())
    n = draw(st.integers(100, 125) if big else st.integers(3, 12))
    m = draw(st.integers(100, 125) if big else st.integers(3, 12))
    grouped = draw(st.booleans())
    return dict(n=n, m=m, ep=0 if grouped else draw(st.sampled_from([0, 0, 4])),
                en=0 if grouped else draw(st.sampled_from([0, 0, 9])), grouped=grouped,
                touch=draw(st.sampled_from([None, 0, 1, 2])),
                perm=draw(st.integers(0, 10**6)), sc=draw(st.sampled_from(["pos", "neg"])),
                steps=draw(st.lists(st.tuples(st.integers(0, len(SEQ_CONFIGS) - 1), st.integers(0, 2**31 - 1)),
                                    min_size=2, max_size=4)),
                nb=draw(st.integers(2, 4)))


def check_sequence(case):
    """Bootstrap calls with different configurations on ONE object give, under the same seed, what
    a freshly constructed equal object gives (nothing remembered from an earlier configuration)."""
    from score_analysis import BootstrapConfig, Scores

    vals = (np.random.RandomState(case["perm"]).permutation(case["n"] + case["m"]) * 0.25).tolist()
    pos, neg = vals[: case["n"]], vals[case["n"]:]

    names = ["adult", "child", "senior"]

    def build():
        if case.get("grouped"):
            from score_analysis import GroupScores

            pg = [names[i % 3] for i in range(len(pos))]
            ng = [names[(2 * i + 1) % 3] for i in range(len(neg))]
            return GroupScores(np.asarray(pos), np.asarray(neg), pos_groups=np.asarray(pg),
                               neg_groups=np.asarray(ng), score_class=case["sc"])
        return Scores(np.asarray(pos), np.asarray(neg), nb_easy_pos=case["ep"], nb_easy_neg=case["en"],
                      score_class=case["sc"])

    def metric(s):
        return np.asarray([s.pos.mean(), s.neg.mean(), len(s.pos), len(s.neg), s.nb_easy_pos])

    o = build()
    if case.get("grouped") and case.get("touch") is not None:
        o[names[case["touch"]]]  # a pure accessor: looking at one group first must not matter
    kinds = set()
    for i, (ci, seed) in enumerate(case["steps"]):
        method, strat, smoothing = SEQ_CONFIGS[ci]
        if case.get("grouped"):
            smoothing = False  # not implemented for GroupScores
            strat = "by_group" if strat is None and ci % 2 == 0 else strat
        cfg = BootstrapConfig(nb_samples=case["nb"], sampling_method=rt(method), stratified_sampling=rt(strat),
                              smoothing=smoothing, bootstrap_method="quantile")
        outs = []
        for obj in (o, build()):
            np.random.seed(seed)
            try:
                outs.append(("ok", obj.bootstrap_metric(metric, config=cfg)))
            except ValueError as e:
                outs.append(("ValueError", str(e)[:40]))
        a, b = outs
        same = a[0] == b[0] and (a[0] != "ok" or np.array_equal(a[1], b[1]))
        require(same, "bm:depends-on-earlier-calls",
                lambda: f"step {i} config={SEQ_CONFIGS[ci]} seed={seed} on an object that already ran "
                        f"{[SEQ_CONFIGS[c] for c, _ in case['steps'][:i]]}: {a} but a fresh equal object gives {b}")
        kinds.add(ci)
    return dict(nontrivial=len(kinds) >= 2, labels=["big-source" if case["n"] >= 100 else "small-source"])


PROP = Prop(
    id="C14",
    rule=("Hypothesis: Scores (easy counts 0/2/7) and GroupScores (2 groups) with distinct quarter "
          "scores, metric by name (tpr, fnr, fpr, tonr, threshold_at_fnr with kwargs, auc with "
          "limits, eer, group_fpr/tnr/fnr) or callable with scalar / vector / matrix output and "
          "visibly forwarded kwargs, nb_samples 1-12, all CI methods, alpha, seeds. Oracles: (1) "
          "deterministic counting sampler (j-th call shifts scores by j): row j = metric of the "
          "j-th sample, shape (nb_samples,)+metric shape, sampler called nb_samples times with the "
          "object itself; (2) built-in configurations (6 for Scores, 5 for GroupScores): re-seed "
          "and replay bootstrap_sample by hand, rows equal exactly, same seed reproducible; (3) "
          "bootstrap_ci == utils.bootstrap_ci(rows, metric(original), alpha, method) exactly (same "
          "exception type counts as agreement); (4) identity sampler: both limits equal the point "
          "estimate for quantile/bc/bca; (5) different seeds give different replicates (metric = "
          "the resampled scores themselves, >=8 scores per class, >=4 samples). Non-trivial = "
          "nb_samples >= 2."),
    clauses=[
        Clause("wiring", check, strategy=_cases(), quick=350, thorough=8000, quick_shards=8,
               min_nontrivial=100, doc="rows = metric of j-th sample; CI wiring; identity collapse"),
        Clause("config_sequences", check_sequence, strategy=_seq_cases(), quick=150, thorough=1200,
               quick_shards=2, shards=8, min_nontrivial=50,
               doc="several configurations in a row on one object = fresh object each time"),
        Clause("seeds", check_seeds, strategy=_seed_cases(), quick=60, thorough=2400, shards=4,
               min_nontrivial=20, doc="reproducible per seed, different across seeds"),
    ],
    assumptions=["the CI formula itself is C13's subject; here utils.bootstrap_ci is the reference "
                 "for the wiring"],
)

RULE_EXTRA = ('objects of a user subclass of Scores that adds / redefines a metric (names resolve on the class of the object while the built-in samplers return plain Scores); threshold_at_* metrics whose targets are one shared float64 array; SINGLE_PASS_SAMPLE_THRESHOLD re-assigned at run time (3/5/8) and by_group on group-less objects, both replayed through the configuration the documentation equates them with; samplers and metrics as function / lambda / partial / bound method / callable object / dataclass instance; metrics scaled by 1e-8..1e6; NaN-producing metric; smoothing configurations; independent re-implementation of the documented formulas (C13) as reference; clause config_sequences: 2-4 bootstrap configurations in a row on one object (3-12 or 100-125 scores per class) against fresh equal objects under the same seed. Metrics that are the Python int 0 on the original object; metrics returning a transposed view / Fortran-ordered array; grouped samples rebuilt from their public arrays before the reference metric is applied. A sampler that refills one scratch object and returns it on every draw.')
