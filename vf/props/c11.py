"""C11 - bootstrap samples are well-formed resamples of their source."""

from __future__ import annotations

import math
from collections import Counter

import numpy as np
from hypothesis import strategies as st
from hypothesis.stateful import RuleBasedStateMachine, initialize, rule

from .. import gen
from ..harness import Clause, Prop, Violation, require
from ..oracles import ref_cm

METHODS = ["replacement", "replacement", "single_pass", "dynamic", "proportion", "callable"]
STRATS = [None, "by_label"]


_SUB = {}


def _user_subclass():
    """A user subclass of Scores with a constructor signature of its own."""
    if "cls" not in _SUB:
        from score_analysis import Scores

        class VerificationScores(Scores):
            def __init__(self, mated, non_mated, *, easy_mated=0, easy_non_mated=0, score_class="pos", equal_class="pos"):
                super().__init__(mated, non_mated, nb_easy_pos=easy_mated, nb_easy_neg=easy_non_mated,
                                 score_class=score_class, equal_class=equal_class)

        _SUB["cls"] = VerificationScores
    return _SUB["cls"]


def _source(src):
    from score_analysis import Scores

    dt = src.get("dtype") or float
    if src.get("subclass"):
        return _user_subclass()(np.asarray(src["pos"], dtype=dt), np.asarray(src["neg"], dtype=dt),
                                easy_mated=src["ep"], easy_non_mated=src["en"], score_class=src["sc"],
                                equal_class=src["ec"])
    return Scores(np.asarray(src["pos"], dtype=dt), np.asarray(src["neg"], dtype=dt),
                  nb_easy_pos=src["ep"], nb_easy_neg=src["en"], score_class=src["sc"],
                  equal_class=src["ec"])


def _config(cfg):
    from score_analysis import BootstrapConfig

    method = cfg["method"]
    if method == "callable":
        method = gen.wrap_callable(_custom_sampler, cfg.get("callable_kind", "function"))
    else:
        method = "".join(list(method))  # a run-time string (as read from a config file), not a literal
    strat = cfg.get("strat")
    strat = "".join(list(strat)) if strat is not None else None
    return BootstrapConfig(sampling_method=method, stratified_sampling=strat,
                           smoothing=cfg.get("smoothing", False), ratio=cfg.get("ratio"))


def _custom_sampler(source):
    """A deterministic custom sampler: drops the smallest positive (if more than one)."""
    from score_analysis import Scores

    pos = source.pos[1:] if len(source.pos) > 1 else source.pos
    return Scores(pos, source.neg, nb_easy_pos=source.nb_easy_pos, nb_easy_neg=source.nb_easy_neg,
                  score_class=source.score_class, equal_class=source.equal_class, is_sorted=True)


def _is_sub_multiset(sample, source):
    cs, cr = Counter(sample), Counter(source)
    return all(cr[v] >= c for v, c in cs.items())


def check_sample(src, cfg, sample, source_obj, ctx, switch=100):
    """Per-sample invariants (exact)."""
    from score_analysis import Scores

    require(isinstance(sample, Scores), "boot:type", f"{ctx}: {type(sample).__name__}")
    require(sample.score_class.value == src["sc"] and sample.equal_class.value == src["ec"],
            "boot:flags", f"{ctx}: sample {sample.score_class}/{sample.equal_class}")
    sp, sn = sample.pos.tolist(), sample.neg.tolist()
    require(sp == sorted(sp) and sn == sorted(sn), "boot:not-sorted", f"{ctx}: pos={sp} neg={sn}")
    method, strat = cfg["method"], cfg.get("strat")
    smoothing = cfg.get("smoothing", False)
    n, m, ep, en = len(src["pos"]), len(src["neg"]), src["ep"], src["en"]
    if not smoothing:
        require(set(sp) <= set(src["pos"]), "boot:foreign-positive",
                lambda: f"{ctx}: sampled positives {sorted(set(sp) - set(src['pos']))} not in source positives")
        require(set(sn) <= set(src["neg"]), "boot:foreign-negative",
                lambda: f"{ctx}: sampled negatives {sorted(set(sn) - set(src['neg']))} not in source negatives")
    # metrics equal direct counting on the sample's own arrays
    allv = sorted(set(sp + sn))
    thr = allv[:3] + allv[-2:] + [a / 2 + b / 2 for a, b in zip(allv[:3], allv[1:4])]
    if thr:
        got = sample.cm(np.asarray(thr)).matrix
        for i, t in enumerate(thr):
            ref = ref_cm(sp, sn, t, src["sc"], src["ec"], sample.nb_easy_pos, sample.nb_easy_neg)
            g = tuple(int(x) for x in got[i].reshape(-1))
            require(g == ref, "boot:metrics-vs-counting",
                    lambda: f"{ctx}: cm({t!r}) on sample pos={sp} neg={sn} gives {g}, counting {ref}")
    if method == "callable":
        return
    if n > 0:
        require(len(sp) >= 1, "boot:no-scored-positive",
                f"{ctx}: source has {n} scored positives, sample has none")
    if m > 0:
        require(len(sn) >= 1, "boot:no-scored-negative",
                f"{ctx}: source has {m} scored negatives, sample has none")
    resolved = method
    if method == "dynamic":
        resolved = "replacement" if (n < switch or m < switch or smoothing) else "single_pass"
    require(sample.nb_easy_pos >= 0 and sample.nb_easy_neg >= 0, "boot:negative-easy", ctx)
    if resolved == "replacement":
        require(sample.nb_all_samples == n + m + ep + en, "boot:total-count",
                f"{ctx}: total {sample.nb_all_samples} != {n + m + ep + en}")
        if strat == "by_label":
            got = (len(sp), len(sn), sample.nb_easy_pos, sample.nb_easy_neg)
            require(got == (n, m, ep, en), "boot:strata",
                    f"{ctx}: strata (hard pos, hard neg, easy pos, easy neg) {got} != {(n, m, ep, en)}")
    if strat == "by_label" and method in ("single_pass", "dynamic", "replacement"):
        require((sample.nb_easy_pos, sample.nb_easy_neg) == (ep, en), "boot:strata",
                f"{ctx}: easy strata {(sample.nb_easy_pos, sample.nb_easy_neg)} != {(ep, en)}")
    if method == "proportion":
        r = cfg["ratio"]
        exp = (max(int(r * n), 1), max(int(r * m), 1), int(r * ep), int(r * en))
        got = (len(sp), len(sn), sample.nb_easy_pos, sample.nb_easy_neg)
        require(got == exp, "boot:proportion-sizes", f"{ctx}: sizes {got} != {exp}")
        require(_is_sub_multiset(sp, src["pos"]) and _is_sub_multiset(sn, src["neg"]),
                "boot:proportion-with-replacement",
                f"{ctx}: sample is not a sub-multiset of the source: pos={sp} neg={sn}")


# -------------------------------------------------------------------- clause: wellformed
@st.composite
def _sources(draw, min_class=1, max_size=20, allow_empty=False, big=True):
    kind = draw(st.sampled_from(["small", "small", "big"] if big else ["small"]))
    lo = 0 if allow_empty else min_class
    if kind == "small":
        n, m = draw(st.integers(lo, max_size)), draw(st.integers(lo, max_size))
    else:
        n, m = draw(st.integers(90, 130)), draw(st.integers(90, 130))
        if allow_empty and draw(st.integers(0, 3)) == 0:
            # a class without scored samples next to a class beyond the dynamic switch
            if draw(st.booleans()):
                n = 0
            else:
                m = 0
    distinct = draw(st.booleans()) or kind == "big"
    if distinct:
        ks = draw(st.permutations(list(range(n + m)))) if n + m <= 40 else None
        if ks is None:
            seed = draw(st.integers(0, 10**6))
            ks = np.random.RandomState(seed).permutation(n + m).tolist()
        vals = [0.5 * k - 7 for k in ks]
    else:
        vals = [k / 2 for k in draw(st.lists(st.integers(-3, 3), min_size=n + m, max_size=n + m))]
    # few scored samples next to many easy ones (the dynamic switch counts *scored* samples)
    ez = st.one_of(st.just(0), st.just(0), st.integers(1, 5), st.integers(6, 150), st.integers(100, 600))
    sc, ec = draw(gen.CONFIG)
    dtype = None
    if kind == "small" and draw(st.integers(0, 4)) == 0:
        # quantised scores in an unsigned / narrow dtype (values are their own float images)
        dtype = draw(st.sampled_from(["uint8", "uint16", "int8", "float32", "bool"]))
        hi = 1 if dtype == "bool" else 100
        if distinct and n + m <= hi + 1:
            vals = [float(v) for v in draw(st.permutations(list(range(hi + 1))))[: n + m]]
        else:
            vals = [float(v) for v in draw(st.lists(st.integers(0, hi), min_size=n + m, max_size=n + m))]
    return dict(pos=vals[:n], neg=vals[n:], ep=draw(ez), en=draw(ez), sc=sc, ec=ec, dtype=dtype,
                subclass=draw(st.sampled_from([False, False, False, True])))


@st.composite
def _wf_cases(draw):
    method = draw(st.sampled_from(METHODS))
    cfg = dict(method=method, strat=draw(st.sampled_from(STRATS)))
    # (an empty class: replacement sampling, and "dynamic", which is documented to mean replacement then)
    src = draw(_sources(allow_empty=(method in ("replacement", "dynamic"))))
    if method == "proportion":
        cfg["ratio"] = draw(st.one_of(st.sampled_from([0.1, 0.5, 0.9, 0.3333]),
                                      st.floats(min_value=0.01, max_value=0.99)))
    if method in ("replacement", "dynamic") and src["pos"] and src["neg"] and src.get("dtype") != "bool":
        cfg["smoothing"] = draw(st.sampled_from([False, False, True]))
    if method == "callable":
        cfg["callable_kind"] = draw(st.sampled_from(gen.CALLABLE_KINDS))
    if method in ("replacement", "single_pass", "dynamic") and draw(st.integers(0, 3)) == 0:
        # a configuration derived from a template (dataclasses.replace): ratio is set, but only
        # "proportion" sampling is documented to use it
        cfg["ratio"] = draw(st.sampled_from([0.5, 0.25, 0.9]))
    # the documented run-time setting of the dynamic switch (None = leave the shipped value, 100)
    switch = draw(st.sampled_from([None, None, None, 5, 20, 110, 1000])) if method == "dynamic" else None
    return dict(src=src, cfg=cfg, seed=draw(gen.RNG_SEED), reps=draw(st.integers(1, 6)), switch=switch)


def check_wellformed(case):
    import score_analysis.scores as sa_scores

    shipped = sa_scores.SINGLE_PASS_SAMPLE_THRESHOLD
    if case.get("switch") is not None:
        # "The threshold can be changed by setting the variable SINGLE_PASS_SAMPLE_THRESHOLD."
        sa_scores.SINGLE_PASS_SAMPLE_THRESHOLD = case["switch"]
    try:
        return _check_wellformed(case, case.get("switch") or shipped)
    finally:
        sa_scores.SINGLE_PASS_SAMPLE_THRESHOLD = shipped


def _check_wellformed(case, switch):
    src, cfg = case["src"], case["cfg"]
    s = _source(src)
    p0, n0 = s.pos.copy(), s.neg.copy()
    np.random.seed(case["seed"])
    config = _config(cfg)
    n, m = len(src["pos"]), len(src["neg"])
    for j in range(case["reps"]):
        ctx = f"cfg={cfg} seed={case['seed']} draw {j} source n={n} m={m} ep={src['ep']} en={src['en']} {src['sc']}/{src['ec']}"
        b = s.bootstrap_sample(config)
        check_sample(src, cfg, b, s, ctx, switch=switch)
    require(np.array_equal(s.pos, p0) and np.array_equal(s.neg, n0), "boot:source-mutated", "")
    # the same object asked again with smoothing switched the other way: what "dynamic" resolves to is decided per
    # call, so the draw equals the draw of a fresh equal object under the same seed
    if cfg["method"] == "dynamic" and n and m and src.get("dtype") != "bool":
        toggled = _config(dict(cfg, smoothing=not cfg.get("smoothing", False)))
        np.random.seed((case["seed"] + 1) % 2**32)
        a = s.bootstrap_sample(toggled)
        np.random.seed((case["seed"] + 1) % 2**32)
        b = _source(src).bootstrap_sample(toggled)
        require(a == b, "boot:history-dependent",
                f"cfg={cfg} seed={case['seed']} n={n} m={m}: after sampling with smoothing={cfg.get('smoothing', False)}, a "
                f"sample with smoothing={not cfg.get('smoothing', False)} differs from the one a fresh equal object gives")
    # dynamic = the documented choice, under the same seed
    if cfg["method"] == "dynamic" and n != switch and m != switch and n and m:
        from score_analysis import BootstrapConfig

        explicit = "single_pass" if (n > switch and m > switch and not cfg.get("smoothing")) else "replacement"
        np.random.seed(case["seed"])
        a = s.bootstrap_sample(config)
        np.random.seed(case["seed"])
        b = s.bootstrap_sample(BootstrapConfig(sampling_method=explicit,
                                               stratified_sampling=cfg.get("strat"),
                                               smoothing=cfg.get("smoothing", False)))
        require(a == b, "boot:dynamic-choice",
                f"dynamic on n={n} m={m} smoothing={cfg.get('smoothing')} with SINGLE_PASS_SAMPLE_THRESHOLD="
                f"{switch} differs from explicit {explicit}")
    # what is drawn for one class does not depend on the score *values* of the other class (same
    # seed, same sizes): in particular the smoothing noise of a class is scaled by that class
    if cfg["method"] in ("replacement", "dynamic", "single_pass") and n >= 2 and m >= 2 and not src.get("dtype"):
        src2 = dict(src, pos=[3.0 * x + 1.0 for x in src["pos"]])
        np.random.seed(case["seed"])
        a = s.bootstrap_sample(config)
        np.random.seed(case["seed"])
        b = _source(src2).bootstrap_sample(config)
        require(np.array_equal(a.neg, b.neg) and a.nb_easy_neg == b.nb_easy_neg, "boot:class-crosstalk",
                lambda: f"cfg={cfg} seed={case['seed']}: rescaling the positive scores (3x+1) changed the sampled "
                        f"negatives from {a.neg.tolist()[:6]}... to {b.neg.tolist()[:6]}...")
        src3 = dict(src, neg=[0.5 * x - 2.0 for x in src["neg"]])
        np.random.seed(case["seed"])
        c = _source(src3).bootstrap_sample(config)
        require(np.array_equal(a.pos, c.pos) and a.nb_easy_pos == c.nb_easy_pos, "boot:class-crosstalk",
                lambda: f"cfg={cfg} seed={case['seed']}: rescaling the negative scores (x/2-2) changed the sampled "
                        f"positives from {a.pos.tolist()[:6]}... to {c.pos.tolist()[:6]}...")
    labels = [f"method:{cfg['method']}", f"strat:{cfg['strat']}"]
    if cfg.get("ratio") is not None and cfg["method"] != "proportion":
        labels.append("unused-ratio-set")
    if case.get("switch") is not None:
        labels.append(f"switch:{case['switch']}")
    if cfg.get("callable_kind"):
        labels.append(f"callable:{cfg['callable_kind']}")
    if cfg.get("smoothing"):
        labels.append("smoothing")
    if n >= 90:
        labels.append("around-switch")
    if n == 0 or m == 0:
        labels.append("empty-class")
    if src.get("dtype"):
        labels.append(f"dtype:{src['dtype']}")
    if (n < 100 or m < 100) and n + src["ep"] >= 100 and m + src["en"] >= 100:
        labels.append("few-hard-many-easy")
    return dict(nontrivial=len(set(src["pos"])) >= 3 and len(set(src["neg"])) >= 3, labels=labels)


# -------------------------------------------------------------------- clause: tiny classes, many draws
def _tiny_cases(tier):
    """One or two scored samples per class (plus easy ones): in a fair share of the draws nothing is selected
    from a class - from both at once in 1/16 .. 1/256 of them - and the at-least-one rule has to step in."""
    sizes = [(1, 1, 50, 50), (2, 2, 0, 0), (1, 2, 200, 100), (2, 1, 10, 500), (1, 1, 0, 0), (2, 3, 40, 0)]
    for n, m, ep, en in sizes:
        for method in ("single_pass", "replacement"):
            for strat in (None, "by_label"):
                for seed in (0, 1) if tier == "quick" else range(8):
                    yield dict(n=n, m=m, ep=ep, en=en, method=method, strat=strat, seed=seed)


def check_tiny(case):
    n, m = case["n"], case["m"]
    src = dict(pos=[0.5 + k for k in range(n)], neg=[0.25 - k for k in range(m)], ep=case["ep"], en=case["en"],
               sc="pos", ec="pos", dtype=None, subclass=False)
    cfg = dict(method=case["method"], strat=case["strat"])
    s = _source(src)
    config = _config(cfg)
    np.random.seed(case["seed"])
    both = 0
    for j in range(600):
        b = s.bootstrap_sample(config)
        check_sample(src, cfg, b, s, f"cfg={cfg} seed={case['seed']} draw {j} source n={n} m={m} ep={case['ep']} en={case['en']}")
        both += 1
    return dict(nontrivial=True, labels=[f"tiny:{case['method']}"])


# -------------------------------------------------------------------- clause: rejections
_rej_cases = st.fixed_dictionaries(dict(
    src=_sources(big=False, max_size=6),
    kind=st.sampled_from(["single_pass+smoothing", "proportion-no-ratio", "unknown-method",
                          "non-callable"]),
    seed=gen.RNG_SEED))


def check_rejections(case):
    from score_analysis import BootstrapConfig

    s = _source(case["src"])
    np.random.seed(case["seed"])
    cfg = {
        "single_pass+smoothing": BootstrapConfig(sampling_method="single_pass", smoothing=True),
        "proportion-no-ratio": BootstrapConfig(sampling_method="proportion"),
        "unknown-method": BootstrapConfig(sampling_method="jackknife"),
        "non-callable": BootstrapConfig(sampling_method=3),
    }[case["kind"]]
    try:
        s.bootstrap_sample(cfg)
    except ValueError:
        return dict(nontrivial=True, labels=[case["kind"]])
    raise Violation("boot:invalid-config-accepted", case["kind"])


# -------------------------------------------------------------------- clause: chain (machine)
def check_chain(case):
    """A history: sample of a sample of ... ; every link is a well-formed resample of the
    previous one and (without smoothing) only ever contains values of the original class."""
    src0 = case["src"]
    cur_src = dict(src0)
    cur = _source(src0)
    links = 0
    for i, step in enumerate(case["steps"]):
        if step["op"] == "swap":
            cur = cur.swap()
            cur_src = dict(pos=cur_src["neg"], neg=cur_src["pos"], ep=cur_src["en"], en=cur_src["ep"],
                           sc="neg" if cur_src["sc"] == "pos" else "pos",
                           ec="neg" if cur_src["ec"] == "pos" else "pos")
            continue
        cfg = step["cfg"]
        np.random.seed(step["seed"])
        nxt = cur.bootstrap_sample(_config(cfg))
        check_sample(cur_src, cfg, nxt, cur, f"link {i} cfg={cfg} seed={step['seed']}")
        cur = nxt
        cur_src = dict(pos=nxt.pos.tolist(), neg=nxt.neg.tolist(), ep=int(nxt.nb_easy_pos),
                       en=int(nxt.nb_easy_neg), sc=cur_src["sc"], ec=cur_src["ec"])
        links += 1
    return dict(nontrivial=links >= 3, labels=[f"links:{min(links, 5)}"])


def make_chain_machine(tier, on_history):
    class Chain(RuleBasedStateMachine):
        def __init__(self):
            super().__init__()
            self.src = None
            self.steps = []

        @initialize(src=_sources(big=False, max_size=12))
        def start(self, src):
            self.src = src

        @rule(method=st.sampled_from(["replacement", "single_pass", "dynamic", "proportion"]),
              strat=st.sampled_from(STRATS), seed=gen.RNG_SEED,
              ratio=st.sampled_from([0.5, 0.9, 0.34]))
        def sample(self, method, strat, seed, ratio):
            cfg = dict(method=method, strat=strat)
            if method == "proportion":
                cfg["ratio"] = ratio
            self.steps.append(dict(op="sample", cfg=cfg, seed=seed))

        @rule()
        def swap(self):
            self.steps.append(dict(op="swap"))

        def teardown(self):
            if self.src is not None:
                on_history(dict(src=self.src, steps=self.steps))

    return Chain


# -------------------------------------------------------------------- clause: distribution
def _bernstein(v, L=28.0):
    """radius t with 2*exp(-t^2 / (2 (v + t/3))) <= 2e-12 for variance proxy v."""
    return L / 3 + math.sqrt((L / 3) ** 2 + 2 * v * L)


def _dist_strategy(tier):
    K = 300 if tier == "quick" else 3000

    @st.composite
    def cases(draw):
        if draw(st.integers(0, 5)) == 0:
            # a handful of easy samples next to 1e5-3e5 scored ones (fewer draws: each is expensive)
            method, strat = draw(st.sampled_from([("replacement", None), ("dynamic", None), ("single_pass", None)]))
            return dict(n=draw(st.sampled_from([120_000, 300_000])), m=draw(st.sampled_from([100_000, 250_000])),
                        ep=draw(st.sampled_from([2, 3, 5])), en=draw(st.sampled_from([2, 4])),
                        sc=draw(st.sampled_from(["pos", "neg"])), method=method, strat=strat,
                        seed=draw(gen.RNG_SEED), K=100 if K <= 300 else 300, per_score=False)
        n, m = draw(st.integers(30, 140)), draw(st.integers(30, 140))
        ez = st.sampled_from([0, 0, 5, 20, 60])
        method, strat = draw(st.sampled_from([("replacement", None), ("single_pass", None),
                                              ("single_pass", "by_label"),
                                              ("replacement", "by_label"), ("dynamic", None), ("proportion", None), ("proportion", None)]))
        ep, en = draw(ez), draw(ez)
        if method == "replacement" and draw(st.integers(0, 2)) == 0:
            # a class without a single scored sample, present only through its easy samples (the property
            # covers empty classes for replacement sampling only; single-pass sampling divides by the class size)
            if draw(st.booleans()):
                n, ep = 0, draw(st.sampled_from([5, 20, 60]))
            else:
                m, en = 0, draw(st.sampled_from([5, 20, 60]))
        return dict(n=n, m=m, ep=ep, en=en, sc=draw(st.sampled_from(["pos", "neg"])),
                    method=method, strat=strat, seed=draw(gen.RNG_SEED), K=K,
                    ratio=draw(st.sampled_from([0.02, 0.05, 0.05, 0.3, 0.6])) if method == "proportion" else None)

    return cases()


def _dist_stats(case, seed, K):
    from score_analysis import BootstrapConfig, Scores

    n, m, ep, en = case["n"], case["m"], case["ep"], case["en"]
    pos = 0.5 + 2.0 * np.arange(n)
    neg = 1.25 + 2.0 * np.arange(m)
    s = Scores(pos, neg, nb_easy_pos=ep, nb_easy_neg=en, score_class=case["sc"])
    cfg = BootstrapConfig(sampling_method=case["method"], stratified_sampling=case["strat"], ratio=case.get("ratio"))
    np.random.seed(seed)
    cp, cn = np.zeros(n), np.zeros(m)
    sz = np.zeros(4)
    if case["method"] == "proportion":
        K = 4 * K  # small samples, cheap to draw: more of them
    for _ in range(K):
        b = s.bootstrap_sample(cfg)
        sz += [b.nb_hard_pos, b.nb_hard_neg, b.nb_easy_pos, b.nb_easy_neg]
        ip = np.rint((b.pos - 0.5) / 2.0).astype(int)
        ineg = np.rint((b.neg - 1.25) / 2.0).astype(int)
        if (len(ip) and (ip.min() < 0 or ip.max() >= n or not np.array_equal(pos[ip], b.pos))) or \
           (len(ineg) and (ineg.min() < 0 or ineg.max() >= m or not np.array_equal(neg[ineg], b.neg))):
            raise Violation("boot:foreign-value", "sample contains a value that is not in the source class")
        cp += np.bincount(ip, minlength=n)
        cn += np.bincount(ineg, minlength=m)
    T = n + m + ep + en
    exceed = []
    worst = 0.0
    if case["method"] == "proportion":
        # the requested fraction of each stratum, drawn without replacement: sizes are fixed, and every
        # score of a class is equally likely to be among the kept ones
        r = case["ratio"]
        keep = [max(int(r * n), 1), max(int(r * m), 1), int(r * ep), int(r * en)]
        for j, name in enumerate(["hard_pos", "hard_neg", "easy_pos", "easy_neg"]):
            if sz[j] != K * keep[j]:
                exceed.append(f"stratum {name}: expected exactly {keep[j]} per sample, total {sz[j]} over K={K}")
        for cnt, size, k_, nm in ((cp, n, keep[0], "positive"), (cn, m, keep[1], "negative")):
            p_ = k_ / size
            t = _bernstein(K * p_ * (1 - p_))
            d = np.abs(cnt - K * p_)
            worst = max(worst, float(d.max()) / t)
            if d.max() > t:
                i = int(d.argmax())
                exceed.append(f"{nm} score #{i} of {size} is kept in {cnt[i] / K:.4f} of the samples, expected {p_:.4f} "
                              f"(|sum-K*p|={d[i]:.1f} > bound {t:.1f} over K={K})")
            # ... and the kept scores are spread evenly over the sorted class: the sum of their ranks
            # over all samples (a single, far more powerful statistic than the per-score counts)
            rank_sum = float(np.dot(cnt, np.arange(size)))
            mean_ = K * k_ * (size - 1) / 2.0
            big, var = k_ * size / 2.0, K * k_ * size * size / 12.0
            L = 28.0
            t = big * L / 3 + math.sqrt((big * L / 3) ** 2 + 2 * var * L)
            worst = max(worst, abs(rank_sum - mean_) / t)
            if abs(rank_sum - mean_) > t:
                exceed.append(f"{nm} class of {size}: the kept scores have mean rank {rank_sum / (K * k_):.2f}, expected "
                              f"{(size - 1) / 2:.2f} (|sum-mean|={abs(rank_sum - mean_):.0f} > bound {t:.0f} over K={K})")
        return exceed, worst
    for j, (e_, name) in enumerate(zip([n, m, ep, en], ["hard_pos", "hard_neg", "easy_pos", "easy_neg"])):
        q = e_ / T
        # variance proxy of one sample's stratum size: binomial split of the population
        # (non-stratified) plus the Poisson/binomial spread of single-pass multiplicities
        # (the multiplicity spread only concerns the scored strata; easy counts are binomial)
        v = K * ((0.0 if case["strat"] == "by_label" else T * q * (1 - q)) + (e_ if j < 2 else 0.0))
        if v == 0:  # deterministic stratum (stratified, or absent in the source)
            if sz[j] != K * e_:
                exceed.append(f"stratum {name}: expected exactly {e_} per sample, total {sz[j]} over K={K}")
            continue
        t = _bernstein(v)
        d = abs(sz[j] - K * e_)
        worst = max(worst, d / t)
        if d > t:
            exceed.append(f"mean size of stratum {name} = {sz[j] / K:.4f}, source has {e_} "
                          f"(|sum-K*e|={d:.1f} > bound {t:.1f} over K={K})")
    t = _bernstein(1.3 * K)
    for cnt, nm in ((cp, "positive"), (cn, "negative")) if case.get("per_score", True) else ():
        if not len(cnt):
            continue
        d = np.abs(cnt - K)
        worst = max(worst, float(d.max()) / t)
        if d.max() > t:
            i = int(d.argmax())
            exceed.append(f"{nm} score #{i} appears {cnt[i] / K:.4f} times per sample on average "
                          f"(|sum-K|={d[i]:.1f} > bound {t:.1f} over K={K})")
        if (cnt == 0).any():
            exceed.append(f"{nm} score #{int(np.argmin(cnt))} never sampled in {K} samples")
    return exceed, worst


def check_distribution(case):
    exceed, worst = _dist_stats(case, case["seed"], case["K"])
    if exceed:
        # re-test once with an independent seed and 4x the samples before reporting
        seed2 = (case["seed"] * 2654435761 + 12345) % (2**32)
        exceed2, _ = _dist_stats(case, seed2, 4 * case["K"])
        if exceed2:
            raise Violation("boot:biased",
                            f"cfg={case['method']}/{case['strat']} n={case['n']} m={case['m']} "
                            f"ep={case['ep']} en={case['en']}: {exceed[0]}; confirmed with seed "
                            f"{seed2}, K={4 * case['K']}: {exceed2[0]}")
    lab = [f"dist:{case['method']}/{case['strat']}", f"worst-ratio<{math.ceil(worst * 4) / 4}"]
    if case["n"] >= 100 and case["m"] >= 100:
        lab.append("poisson-path")
    return dict(nontrivial=True, labels=lab)


def _easy_only_cases(tier):
    """Sources whose one class is present through easy samples only, replacement sampling (the only method the
    property admits for them): a fixed list, so that every run has them."""
    K = 300 if tier == "quick" else 2000
    for n, m, ep, en in ((0, 30, 5, 0), (0, 60, 20, 3), (0, 45, 60, 0), (40, 0, 0, 20), (35, 0, 4, 5)):
        for sc in ("pos", "neg"):
            yield dict(n=n, m=m, ep=ep, en=en, sc=sc, method="replacement", strat=None, seed=7 + n + m, K=K, ratio=None)


PROP = Prop(
    id="C11",
    rule=("wellformed (Hypothesis): sources of 1-20 or 90-130 scores per class (either side of the "
          "single-pass switch at 100; replacement also with empty classes), distinct values (to "
          "trace membership) or tied grid values, easy counts 0..150, 4 configs, methods "
          "replacement / single_pass / dynamic / proportion(ratio) / callable x stratification "
          "None / by_label x smoothing where supported, a np.random.seed value and 1-6 draws; exact "
          "per-sample invariants (flags, class membership, sortedness, metrics = counting, at "
          "least one scored sample per non-empty class, total count, strata, proportion sizes and "
          "no replacement, dynamic = documented explicit method under the same seed). chain "
          "(Hypothesis state machine): sample-of-a-sample histories with swap steps. distribution "
          "(statistical, bounded error): both hard classes 30-140, K=300 (quick) / 3000 (thorough) "
          "samples under one seed; mean stratum sizes and mean multiplicity of every source score "
          "against Bernstein bounds at 2e-12 per statistic, every score reached; an exceedance is "
          "re-tested with an independent seed and 4K samples before it is reported. Non-trivial = "
          ">=3 distinct scores per class (wellformed), >=3 links (chain), every case (distribution)."),
    clauses=[
        Clause("wellformed", check_wellformed, strategy=_wf_cases(), quick=500, thorough=15000,
               quick_shards=4, min_nontrivial=200, doc="per-sample invariants"),
        Clause("tiny_classes", check_tiny, kind="enum", cases=_tiny_cases, quick_shards=4, shards=8,
               min_nontrivial=10, doc="600 draws each from sources with 1-3 scored samples per class"),
        Clause("rejections", check_rejections, strategy=_rej_cases, quick=40, thorough=100, shards=1,
               min_nontrivial=4, doc="documented ValueErrors"),
        Clause("chain", check_chain, kind="machine", machine=make_chain_machine, quick=80,
               thorough=2400, quick_shards=2, shards=8, steps=8, min_nontrivial=20,
               doc="sample of a sample of ... histories"),
        Clause("easy_only_class", check_distribution, kind="enum", cases=_easy_only_cases, quick_shards=4, shards=8,
               min_nontrivial=6, doc="unbiasedness for sources with a class that has easy samples only (replacement)"),
        Clause("distribution", check_distribution, strategy=_dist_strategy, quick=12, thorough=240,
               quick_shards=4, shards=16, min_nontrivial=20,
               doc="unbiasedness: stratum sizes and per-score multiplicities (statistical)"),
    ],
    assumptions=["statistical clause: false-alarm probability < 1e-8 per run by construction "
                 "(Bernstein bounds at 2e-12 per statistic, confirmation run with 4K samples)",
                 "the at-least-one correction has probability < 1e-12 per sample for classes >= 30",
                 "sizes of exactly 100 are skipped for the dynamic-choice clause (docs say both "
                 "'>100' and 'at least 100')"],
)

RULE_EXTRA = ('a ratio set on configurations that are documented not to use it; under one seed the values sampled for one class do not change when the other class is rescaled (incl. smoothing); the dynamic switch SINGLE_PASS_SAMPLE_THRESHOLD re-assigned at run time (5/20/110/1000) as its documentation allows; custom samplers as function / lambda / partial / bound method / callable object / (unhashable) dataclass instance; uint8/uint16/int8/float32/bool sources; sources with few scored and up to 600 easy samples per class. Sources with a class present through easy samples only (replacement); clause tiny_classes: 600 draws each from sources with 1-3 scored samples per class. dynamic on sources with an empty class; the same object asked again with smoothing toggled, against a fresh equal object.')
