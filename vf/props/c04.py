"""C04 - binary metrics: defining algebra, NaN rule, normal-approximation CIs."""

from __future__ import annotations

import math

import numpy as np
from hypothesis import strategies as st

from .. import gen
from ..harness import Clause, Prop, require
from ..oracles import norm_ppf

LEADS = [(), (), (1,), (3,), (2, 2), (1, 2, 1), (2, 1, 2), (0,), (2, 0), (0, 2, 1)]

_INT_CELL = st.one_of(st.just(0), st.just(0), st.integers(0, 6), st.integers(0, 2**40))
_FLT_CELL = st.one_of(st.just(0.0), st.just(0.0), st.integers(0, 40).map(lambda k: k * 0.25),
                      st.floats(min_value=1e-6, max_value=1e9, allow_nan=False),
                      # weights / expected counts far beyond the int64 range (all such floats are integral)
                      st.sampled_from([3e18, 1e19, 2.0 ** 70, 1e25, 1e100, 2.0 ** 63, 4503599627370497.0]))
_NARROW = {"uint8": 255, "int16": 32767, "uint16": 65535, "int32": 2**31 - 1}
ZERO_MODES = ["none", "none", "none", "row0", "row1", "col0", "col1", "all", "diag", "anti"]


@st.composite
def _cases(draw):
    lead = draw(st.sampled_from(LEADS))
    n = gen.shape_size(lead)
    dtype = draw(st.sampled_from(["int", "int", "float", "float", "uint8", "int16", "uint16", "int32", "float32", "uint64"]))
    if dtype in _NARROW:
        # counts stored in a narrow integer dtype; single cells up to its maximum, so that sums
        # of two cells (and the trace) exceed it while every cell fits
        top_ = _NARROW[dtype]
        cell = st.one_of(st.just(0), st.integers(0, 6), st.integers(0, top_), st.integers(top_ // 2, top_))
    elif dtype == "float32":
        cell = st.one_of(st.just(0.0), st.integers(0, 4000).map(lambda k: k * 0.25))  # exact in float32
    else:
        cell = _FLT_CELL if dtype == "float" else _INT_CELL
    mats = []
    for _ in range(n):
        m = draw(st.lists(cell, min_size=4, max_size=4))
        if dtype == "uint64":
            # one cell beyond the int64 range, every sum (incl. the population) within uint64
            m = [min(v, 2**40) for v in m]
            m[draw(st.integers(0, 3))] = draw(st.integers(2**63, 2**63 + 2**62))
        z = draw(st.sampled_from(ZERO_MODES))
        zero = 0.0 if dtype in ("float", "float32") else 0
        idx = {"none": [], "row0": [0, 1], "row1": [2, 3], "col0": [0, 2], "col1": [1, 3],
               "all": [0, 1, 2, 3], "diag": [0, 3], "anti": [1, 2]}[z]
        for i in idx:
            m[i] = zero
        mats.append(m)
    if dtype == "float" and n >= 2 and draw(st.integers(0, 3)) == 0:
        # the matrices of one stack on very different scales (each by its own power of two: exact)
        ks = draw(st.lists(st.sampled_from([-600, -300, 0, 300, 600]), min_size=n, max_size=n))
        mats = [[float(v) * 2.0 ** k for v in m] for m, k in zip(mats, ks)]
    al = st.one_of(st.floats(min_value=1e-6, max_value=1 - 1e-6), st.floats(min_value=1e-6, max_value=1 - 1e-6),
                   st.sampled_from([1e-9, 1e-12, 1e-13, 1e-15, 1e-16, 1e-18, 1e-40, 1e-300, 1 - 1e-12]))
    a1 = draw(al)
    a2 = draw(al)
    return dict(lead=list(lead), dtype=dtype, mats=mats, alpha=sorted([a1, a2]),
                alpha_kind=draw(st.sampled_from(["py", "py", "np", "0d"])),
                # the caller's floating-point error state (warnings escalated to exceptions)
                fp_raise=draw(st.sampled_from([False, False, True])),
                # a matrix of extended-precision floats beyond the float64 range
                ld=dict(base=draw(st.lists(st.integers(0, 6), min_size=4, max_size=4)),
                        exp=draw(st.sampled_from([1100, 1500, 16000]))))


RATES = {
    "tpr": (lambda tp, fn, fp, tn: tp, lambda tp, fn, fp, tn: tp + fn),
    "fnr": (lambda tp, fn, fp, tn: fn, lambda tp, fn, fp, tn: tp + fn),
    "tnr": (lambda tp, fn, fp, tn: tn, lambda tp, fn, fp, tn: fp + tn),
    "fpr": (lambda tp, fn, fp, tn: fp, lambda tp, fn, fp, tn: fp + tn),
    "ppv": (lambda tp, fn, fp, tn: tp, lambda tp, fn, fp, tn: tp + fp),
    "npv": (lambda tp, fn, fp, tn: tn, lambda tp, fn, fp, tn: tn + fn),
    "topr": (lambda tp, fn, fp, tn: tp + fp, lambda tp, fn, fp, tn: tp + fn + fp + tn),
    "tonr": (lambda tp, fn, fp, tn: fn + tn, lambda tp, fn, fp, tn: tp + fn + fp + tn),
    "accuracy": (lambda tp, fn, fp, tn: tp + tn, lambda tp, fn, fp, tn: tp + fn + fp + tn),
}
COMPLEMENT = {"fdr": "ppv", "for_": "npv", "error_rate": "accuracy"}
PAIRS = [("tpr", "fnr"), ("tnr", "fpr"), ("ppv", "fdr"), ("npv", "for_"), ("topr", "tonr"),
         ("accuracy", "error_rate")]
ALIAS = {"tar": "tpr", "frr": "fnr", "trr": "tnr", "far": "fpr", "acceptance_rate": "topr",
         "rejection_rate": "tonr"}
CI = {"tpr_ci": ("tpr", "fnr_ci"), "fnr_ci": ("fnr", "tpr_ci"), "tnr_ci": ("tnr", "fpr_ci"),
      "fpr_ci": ("fpr", "tnr_ci")}
CI_ALIAS = {"tar_ci": "tpr_ci", "frr_ci": "fnr_ci", "trr_ci": "tnr_ci", "far_ci": "fpr_ci"}


def _close(a, b, exact, rt=1e-12):
    if math.isnan(a) or math.isnan(b):
        return math.isnan(a) and math.isnan(b)
    if exact:
        return a == b
    return abs(a - b) <= rt * max(abs(a), abs(b), 1e-300)


def check(case):
    if case.get("fp_raise"):
        # rates with a zero denominator are documented to be NaN: they must come back as NaN, not as
        # a FloatingPointError, also in a process that escalates floating-point warnings
        with np.errstate(divide="raise", invalid="raise"):
            out = _check(case)
        out["labels"] = out["labels"] + ["fp-errors-raise"]
        return out
    return _check(case)


def _check_longdouble(ld, alpha):
    """Cells beyond 1.8e308 held as long doubles (power-of-two multiples of small counts): rates are
    those of the small matrix, intervals are NaN exactly where the rate is and centred on it."""
    from score_analysis import ConfusionMatrix, metrics

    if np.finfo(np.longdouble).maxexp <= 1024:
        return  # no extended precision on this platform
    base = np.asarray(ld["base"], dtype=np.longdouble).reshape(2, 2)
    M = base * np.longdouble(2) ** ld["exp"]
    small = np.asarray(ld["base"], dtype=float).reshape(2, 2)
    for obj_big, obj_small in ((M, small), (ConfusionMatrix(matrix=M, binary=True), ConfusionMatrix(matrix=small, binary=True))):
        for name in ("tpr", "fnr", "tnr", "fpr", "ppv", "npv", "accuracy", "topr"):
            f = (lambda o, n=name: getattr(metrics, n)(o)) if isinstance(obj_big, np.ndarray) else (lambda o, n=name: getattr(o, n)())
            a, b = float(f(obj_big)), float(f(obj_small))
            require((math.isnan(a) and math.isnan(b)) or a == b, "alg:definition",
                    f"{name} of {ld['base']} * 2^{ld['exp']} (long double) = {a!r}, of the small matrix {b!r}")
        for name, rate in (("tpr_ci", "tpr"), ("fnr_ci", "fnr"), ("tnr_ci", "tnr"), ("fpr_ci", "fpr")):
            if isinstance(obj_big, np.ndarray):
                ci, p = np.asarray(getattr(metrics, name)(obj_big, alpha), dtype=float), float(getattr(metrics, rate)(obj_big))
            else:
                ci, p = np.asarray(getattr(obj_big, name)(alpha=alpha), dtype=float), float(getattr(obj_big, rate)())
            require(bool(np.isnan(ci).all()) == math.isnan(p) and not (np.isnan(ci).any() and not math.isnan(p)), "ci:nan-locus",
                    f"{name} of {ld['base']} * 2^{ld['exp']} (long double) = {ci.tolist()} while {rate} = {p!r}")
            if not math.isnan(p):
                require(abs((ci[0] + ci[1]) / 2 - p) <= 1e-9, "ci:centre", f"{name} {ci.tolist()} p={p!r}")


def _check(case):
    from score_analysis import ConfusionMatrix, metrics

    lead = tuple(case["lead"])
    exact_counts = case["dtype"] not in ("float", "float32")
    # integer counts are compared exactly; rates exactly as long as every count converts to a
    # float without rounding (beyond 2^53 the conversion of numerator and denominator rounds)
    exact = exact_counts and all(sum(m_) < 2**53 for m_ in case["mats"])
    # single-precision matrices give single-precision rates
    rt, ct = (2e-6, 1e-5) if case["dtype"] == "float32" else (1e-12, 1e-9)
    if exact_counts and not exact:
        rt = 1e-15
    dt = {"int": np.int64, "float": np.float64}.get(case["dtype"]) or np.dtype(case["dtype"])
    mats = case["mats"]
    M = np.asarray(mats, dtype=dt).reshape(lead + (2, 2))
    M0 = M.copy()
    cmo = ConfusionMatrix(matrix=M, binary=True)
    a1, a2 = case["alpha"]
    a1_val, a2_val = a1, a2
    if case.get("alpha_kind") == "np":
        a1, a2 = np.float64(a1), np.float64(a2)
    elif case.get("alpha_kind") == "0d":
        # one array object per significance level, handed to every call (as read from a config array)
        a1, a2 = np.asarray(a1), np.asarray(a2)

    def flat(v, extra=()):
        v = np.asarray(v, dtype=float)
        require(v.shape == lead + extra, "alg:shape", f"{v.shape} vs {lead + extra}")
        return v.reshape((-1,) + extra)

    # basic counts
    cnt = {k: flat(getattr(metrics, k)(M)) for k in ["tp", "fn", "fp", "tn", "p", "n", "top",
                                                      "ton", "pop"]}
    R = {}
    for k in list(RATES) + list(COMPLEMENT):
        R[k] = flat(getattr(metrics, k)(M))
        v2 = flat(getattr(cmo, k)())
        require(np.array_equal(R[k], v2, equal_nan=True), "alg:cm-vs-metrics", k)
    for al, k in ALIAS.items():
        require(np.array_equal(flat(getattr(metrics, al)(M)), R[k], equal_nan=True), "alg:alias", al)
        require(np.array_equal(flat(getattr(cmo, al)()), R[k], equal_nan=True), "alg:alias", al)
    cis = {}
    for k in CI:
        cis[k] = (flat(getattr(metrics, k)(M, alpha=a1), (2,)), flat(getattr(metrics, k)(M, alpha=a2), (2,)))
        require(np.array_equal(flat(getattr(cmo, k)(alpha=a1), (2,)), cis[k][0], equal_nan=True),
                "alg:cm-vs-metrics", k)
    for al, k in CI_ALIAS.items():
        require(np.array_equal(flat(getattr(metrics, al)(M, a1), (2,)), cis[k][0], equal_nan=True),
                "alg:alias", al)
        require(np.array_equal(flat(getattr(cmo, al)(alpha=a1), (2,)), cis[k][0], equal_nan=True),
                "alg:alias", al)
        # alpha is the first positional parameter of every CI method, aliases included
        require(np.array_equal(flat(getattr(cmo, al)(a2), (2,)), cis[k][1], equal_nan=True)
                and np.array_equal(flat(getattr(cmo, k)(a2), (2,)), cis[k][1], equal_nan=True)
                and np.array_equal(flat(getattr(metrics, al)(M, a2), (2,)), cis[k][1], equal_nan=True),
                "alg:alias", f"{al} with positional alpha={a2!r}")
    # upper alpha/2 quantile through the lower tail (1 - alpha/2 would round for tiny alpha)
    z1, z2 = -norm_ppf(a1_val / 2), -norm_ppf(a2_val / 2)
    require(float(a1) == a1_val and float(a2) == a2_val, "alg:mutated-input",
            f"alpha changed from {a1_val!r}, {a2_val!r} to {float(a1)!r}, {float(a2)!r}")

    zero_den = nonzero_den = False
    for i, (tp, fn, fp, tn) in enumerate(mats):
        ctx = f"matrix [[{tp!r},{fn!r}],[{fp!r},{tn!r}]]"
        ref = dict(tp=tp, fn=fn, fp=fp, tn=tn, p=tp + fn, n=fp + tn, top=tp + fp, ton=fn + tn,
                   pop=tp + fn + fp + tn)
        for k, v in ref.items():
            require(_close(float(cnt[k][i]), float(v), exact_counts, rt), "alg:count", f"{k} {ctx}: {cnt[k][i]!r}")
        require(_close(cnt["p"][i] + cnt["n"][i], cnt["pop"][i], exact, max(rt, 1e-15))
                and _close(cnt["top"][i] + cnt["ton"][i], cnt["pop"][i], exact, max(rt, 1e-15)),
                "alg:population", ctx)
        for k, (num, den) in RATES.items():
            d = den(tp, fn, fp, tn)
            got = float(R[k][i])
            if d == 0:
                zero_den = True
                require(math.isnan(got), "alg:nan-locus", f"{k} {ctx}: denominator 0 but got {got!r}")
            else:
                nonzero_den = True
                require(not math.isnan(got), "alg:nan-locus", f"{k} {ctx}: NaN with denominator {d!r}")
                require(_close(got, num(tp, fn, fp, tn) / d, exact, rt), "alg:definition",
                        f"{k} {ctx}: got {got!r} expected {num(tp, fn, fp, tn) / d!r}")
                require(0.0 <= got <= 1.0, "alg:range", f"{k} {ctx}: {got!r}")
        for k, base in COMPLEMENT.items():
            got, b = float(R[k][i]), float(R[base][i])
            require(math.isnan(got) == math.isnan(b), "alg:nan-locus", f"{k} {ctx}")
            if not math.isnan(got):
                require(0.0 <= got <= 1.0, "alg:range", f"{k} {ctx}: {got!r}")
        for a, b in PAIRS:
            s = float(R[a][i]) + float(R[b][i])
            require(math.isnan(s) == math.isnan(float(R[a][i])) and (math.isnan(s) or abs(s - 1) <= rt),
                    "alg:complement", f"{a}+{b} {ctx}: {s!r}")
        # confidence intervals
        for k, (rk, mirror) in CI.items():
            p = float(R[rk][i])
            nobs = float(ref["p"] if rk in ("tpr", "fnr") else ref["n"])
            for (ci, z) in ((cis[k][0][i], z1), (cis[k][1][i], z2)):
                lo, hi = float(ci[0]), float(ci[1])
                if math.isnan(p):
                    require(math.isnan(lo) and math.isnan(hi), "ci:nan-locus", f"{k} {ctx}: {lo!r},{hi!r}")
                    continue
                require(not (math.isnan(lo) or math.isnan(hi)), "ci:nan-locus", f"{k} {ctx}")
                hw = z * math.sqrt(max(p * (1 - p), 0.0) / nobs)
                tol = ct * max(hw, abs(p), 1e-300)  # relative only: tiny rates have tiny intervals
                require(abs((lo + hi) / 2 - p) <= tol, "ci:centre", f"{k} {ctx}: {lo!r},{hi!r} p={p!r}")
                require(abs((hi - lo) / 2 - hw) <= tol, "ci:half-width",
                        f"{k} {ctx}: half width {(hi - lo) / 2!r} expected {hw!r}")
            # nesting: a1 < a2, so the a2 interval lies inside the a1 interval
            if not math.isnan(p):
                w, n_ = cis[k][0][i], cis[k][1][i]
                eps = rt + ct * abs(w[1] - w[0])
                require(w[0] <= n_[0] + eps and n_[1] <= w[1] + eps, "ci:nesting",
                        f"{k} {ctx}: alpha={a1!r} {w.tolist()} alpha={a2!r} {n_.tolist()}")
                # mirroring
                mi = cis[mirror][0][i]
                # the complementary rate is a rounded 1-p: for p within 1e-k of 0 or 1 the product
                # p(1-p), and with it the width, is only accurate to about 1e-(16-k) relative
                q = max(min(p, 1 - p), 1e-300)
                mt = rt + max(abs(w[1] - w[0]), abs(mi[1] - mi[0])) * (ct + 4e-16 / q)
                require(abs(w[0] - (1 - mi[1])) <= mt and abs(w[1] - (1 - mi[0])) <= mt,
                        "ci:mirror", f"{k} vs {mirror} {ctx}: {w.tolist()} {mi.tolist()}")
    require(np.array_equal(M, M0), "alg:mutated-input", "")
    if case.get("ld"):
        _check_longdouble(case["ld"], a1_val)
    labels = [f"dtype:{case['dtype']}", f"rank:{len(lead)}"]
    if 0 in lead:
        labels.append("size0-axis")
    return dict(nontrivial=(zero_den and nonzero_den) or (not exact and len(mats) > 0), labels=labels)


PROP = Prop(
    id="C04",
    rule=("Hypothesis: matrices of shape lead+(2,2), lead of rank 0-3 incl. size-0 axes, dtype "
          "int64 (0, small, up to 2^40) or float64 (0, multiples of 0.25, arbitrary in [1e-6,1e9]), "
          "zero rows/columns/diagonals/whole matrices forced in 7 of 10 matrices' modes, two "
          "alphas in (1e-6,1-1e-6); both metrics.* and ConfusionMatrix(binary=True). Oracle: "
          "cell-wise recomputation in Python (exact for ints, 1e-12 relative for floats), exact "
          "NaN locus, complements sum to 1 (1e-12), range [0,1], CI centre/half-width against "
          "statistics.NormalDist (1e-9 relative), nesting, mirroring (1e-12), aliases. Non-trivial "
          "= a zero and a non-zero denominator in the same array, or a float-typed matrix."),
    clauses=[Clause("algebra", check, strategy=_cases(), quick=1200, thorough=24000, quick_shards=4,
                    min_nontrivial=200, doc="definitions, complements, NaN locus, CIs")],
    assumptions=["normal quantile reference: statistics.NormalDist (stdlib)"],
)

RULE_EXTRA = ('long-double matrices beyond the float64 range; floating-point warnings escalated to exceptions (np.errstate(divide, invalid = raise)) in a third of the cases; float cells up to 1e100 (beyond the int64 range); matrices stored as uint8 / int16 / uint16 / int32 with cells up to the dtype maximum (row, column and diagonal sums beyond it) and as float32; alphas down to 1e-300 and up to 1-1e-12 with the reference quantile taken through the lower tail; mirror tolerance scaled by the rounding of 1-p. One float stack holding matrices scaled by 2^-600..2^600; interval centre / half-width compared purely relatively.')
