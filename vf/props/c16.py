"""C16 - ROC confidence bands are well-formed envelopes of pointwise rectangles."""

from __future__ import annotations

import math

import numpy as np
from hypothesis import strategies as st

from .. import gen
from ..harness import Clause, Prop, require, rt

BUILTIN = [("replacement", None), ("replacement", "by_label"), ("single_pass", None),
           ("dynamic", None), ("dynamic", "by_label"),
           # "by_group ... Defaults to non-stratified sampling, if no groups are present."
           ("replacement", "by_group"), ("single_pass", "by_group")]
CI_METHODS = ["quantile", "bc", "bca"]


@st.composite
def _score_objects(draw, max_size=20, min_size=1):
    s = draw(gen.score_sets(min_pos=min_size, min_neg=min_size, max_size=max_size,
                            modes=("grid", "grid", "dyadic", "distinct", "distinct"), max_easy=30))
    sc, ec = draw(gen.CONFIG)
    packed = None
    if draw(st.integers(0, 7)) == 0:
        # scores that float64 cannot tell apart: long doubles 2^-60 apart, or 64-bit integers beyond 2^53
        packed = draw(st.sampled_from(["longdouble", "int64"]))
        n, m = len(s["pos"]), len(s["neg"])
        ks = draw(st.lists(st.integers(-30, 30), min_size=n + m, max_size=n + m))
        s = dict(s, pos=[float(k) for k in ks[:n]], neg=[float(k) for k in ks[n:]])
    return dict(pos=s["pos"], neg=s["neg"], ep=s["ep"], en=s["en"], sc=sc, ec=ec, mode=s["mode"], packed=packed)


@st.composite
def _support(draw, vals, spanning=False, packed=False):
    if packed:  # thresholds cannot be written down as float64 numbers there
        kind = draw(st.sampled_from(["nb_points", "nothing"] if spanning else ["fnr", "fpr", "nb_points", "nothing", "fnr+fpr"]))
    elif spanning:
        kind = draw(st.sampled_from(["nb_points", "nothing"]))
    else:
        kind = draw(st.sampled_from(["fnr", "fpr", "thresholds", "nb_points", "nothing", "fnr+fpr"]))
    rates = st.one_of(st.sampled_from([0.0, 1.0, 0.5, 0.1, 0.25, 0.9]),
                      st.floats(min_value=0.0, max_value=1.0))
    sup = dict(kind=kind)
    if kind in ("fnr", "fnr+fpr"):
        sup["fnr"] = draw(st.lists(rates, min_size=1, max_size=4))
    if kind in ("fpr", "fnr+fpr"):
        sup["fpr"] = draw(st.lists(rates, min_size=1, max_size=4))
    if kind == "thresholds":
        sup["thresholds"] = draw(gen.threshold_values(vals, draw(st.integers(1, 4)), allow_inf=False))
        if draw(st.integers(0, 3)) == 0:
            # accept-all / reject-all thresholds written as infinities (the end points of every ROC curve)
            sup["thresholds"] = sup["thresholds"] + draw(st.sampled_from([[float("inf")], [float("-inf")],
                                                                          [float("-inf"), float("inf")]]))
    if kind == "nb_points":
        sup["nb_points"] = draw(st.integers(4, 12) if spanning else st.integers(2, 12))
    elif kind != "nothing" and not spanning and draw(st.booleans()):
        sup["nb_points"] = draw(st.integers(0, 12))  # supplied points AND nb_points
    if "nb_points" in sup:
        sup["nb_kind"] = draw(st.sampled_from(["py", "py", "int64", "int32"]))
        if kind == "nb_points" and draw(st.integers(0, 7)) == 0:
            # a count held in a narrow NumPy integer type, at the top of its range
            sup["nb_points"], sup["nb_kind"] = draw(st.sampled_from([(127, "int8"), (255, "uint8"), (126, "int8")]))
    return sup


def _mk(o):
    from score_analysis import Scores

    if o.get("packed") == "longdouble":
        one, step = np.longdouble(1), np.longdouble(2) ** -60
        return Scores(one + np.asarray(o["pos"], dtype=np.longdouble) * step, one + np.asarray(o["neg"], dtype=np.longdouble) * step,
                      nb_easy_pos=o["ep"], nb_easy_neg=o["en"], score_class=o["sc"], equal_class=o["ec"])
    if o.get("packed") == "int64":
        return Scores(2**53 + np.asarray(o["pos"], dtype=np.int64), 2**53 + np.asarray(o["neg"], dtype=np.int64),
                      nb_easy_pos=o["ep"], nb_easy_neg=o["en"], score_class=o["sc"], equal_class=o["ec"])
    return Scores(np.asarray(o["pos"], dtype=float), np.asarray(o["neg"], dtype=float),
                  nb_easy_pos=o["ep"], nb_easy_neg=o["en"], score_class=o["sc"], equal_class=o["ec"])


def _kwargs(sup):
    kw = {}
    for k in ("fnr", "fpr", "thresholds"):
        if k in sup:
            kw[k] = np.asarray(sup[k], dtype=float)
    if "nb_points" in sup:
        kw["nb_points"] = sup["nb_points"]
        if sup.get("nb_kind", "py") != "py":
            kw["nb_points"] = np.dtype(sup["nb_kind"]).type(sup["nb_points"])  # a count computed with NumPy
    return kw


def _band_views(c, ctx):
    """The derived views of the bands: complements with exchanged ends, and aliases."""
    fci, pci = np.asarray(c.fnr_ci, dtype=float), np.asarray(c.fpr_ci, dtype=float)
    require(np.array_equal(np.asarray(c.tpr_ci), 1.0 - fci[..., ::-1]) and np.array_equal(np.asarray(c.tnr_ci), 1.0 - pci[..., ::-1])
            and np.array_equal(np.asarray(c.frr_ci), fci) and np.array_equal(np.asarray(c.far_ci), pci)
            and np.array_equal(np.asarray(c.tar_ci), np.asarray(c.tpr_ci))
            and np.array_equal(np.asarray(c.trr_ci), np.asarray(c.tnr_ci)), "band:views", ctx)


def wellformed(c, s, ctx, unit_interval):
    t = np.asarray(c.thresholds)  # as handed out (long-double / integer scores keep their type)
    n = len(t)
    require(len(c.fnr) == n and len(c.fpr) == n, "band:lengths", ctx)
    require(np.array_equal(np.asarray(c.fnr), np.asarray(s.fnr(t)), equal_nan=True)
            and np.array_equal(np.asarray(c.fpr), np.asarray(s.fpr(t)), equal_nan=True),
            "band:rates-vs-thresholds", f"{ctx}: curve rates differ from the object's rates at its thresholds")
    for name in ("fnr_ci", "fpr_ci"):
        b = getattr(c, name)
        require(b is not None and np.asarray(b).shape == (n, 2), "band:shape",
                f"{ctx}: {name} shape {None if b is None else np.asarray(b).shape} for {n} points")
        b = np.asarray(b, dtype=float)
        require(not np.isnan(b).any(), "band:nan", lambda: f"{ctx}: {name} contains NaN: {b.tolist()}")
        require(bool(np.all(b[:, 0] <= b[:, 1])), "band:order",
                lambda: f"{ctx}: {name} has lower > upper: {b[b[:, 0] > b[:, 1]].tolist()}")
        if unit_interval:
            require(bool(np.all(b >= 0) and np.all(b <= 1)), "band:outside-unit-interval",
                    lambda: f"{ctx}: {name} leaves [0,1]: min {b.min()!r} max {b.max()!r}")
    _band_views(c, ctx)


# -------------------------------------------------------------- clause: roc_with_ci, built-in
@st.composite
def _real_cases(draw):
    o = draw(_score_objects())
    sup = draw(_support(o["pos"] + o["neg"], packed=bool(o.get("packed"))))
    method, strat = draw(st.sampled_from(BUILTIN))
    ci = draw(st.sampled_from(CI_METHODS))
    alpha = draw(st.one_of(st.floats(min_value=0.01, max_value=0.5), st.floats(min_value=0.5, max_value=0.99)))
    return dict(o=o, sup=sup, method=method, strat=strat, ci=ci, alpha=alpha,
                nb=draw(st.integers(5, 30)), seed=draw(gen.RNG_SEED),
                x_axis=draw(st.sampled_from(["fpr", "fnr", "tpr", "tnr", "far", "frr"])))


def check_real(case):
    from score_analysis import BootstrapConfig, roc_with_ci

    s = _mk(case["o"])
    cfg = BootstrapConfig(nb_samples=case["nb"], bootstrap_method=case["ci"],
                          sampling_method=rt(case["method"]), stratified_sampling=rt(case["strat"]))
    np.random.seed(case["seed"])
    ctx = (f"roc_with_ci sampler={case['method']}/{case['strat']} ci={case['ci']} alpha={case['alpha']!r} "
           f"support={case['sup']} seed={case['seed']}")
    c = roc_with_ci(s, alpha=case["alpha"], config=cfg, x_axis=case["x_axis"], **_kwargs(case["sup"]))
    wellformed(c, s, ctx, unit_interval=True)
    xs = {"fpr": c.fpr, "far": c.fpr, "fnr": c.fnr, "frr": c.fnr, "tpr": 1 - c.fnr, "tnr": 1 - c.fpr}[case["x_axis"]]
    require(bool(np.all(np.diff(np.asarray(xs)) >= 0)), "band:x-not-monotone", ctx)
    # replay under the same seed: pointwise bootstrap intervals of (FNR at the threshold set at the
    # curve's FPR, FPR at the threshold set at the curve's FNR) with the original's metric as the
    # estimate, rule of three at rates of exactly 0 / 1, envelope over covering rectangles
    fnr, fpr = np.asarray(c.fnr, dtype=float), np.asarray(c.fpr, dtype=float)

    def pointwise(sample):
        return np.stack([sample.fnr(sample.threshold_at_fpr(fpr)), sample.fpr(sample.threshold_at_fnr(fnr))], axis=0)

    cfg_replay = cfg if case["strat"] != "by_group" else \
        BootstrapConfig(nb_samples=case["nb"], bootstrap_method=case["ci"], sampling_method=case["method"],
                        stratified_sampling=None)  # the documented fallback, spelt out
    np.random.seed(case["seed"])
    joint = np.asarray(s.bootstrap_ci(metric=pointwise, alpha=case["alpha"], config=cfg_replay), dtype=float)
    if not np.isnan(joint).any():
        o = case["o"]
        alpha = case["alpha"]
        ok = False
        for nf, np_ in {(len(o["pos"]), len(o["neg"])), (len(o["pos"]) + o["ep"], len(o["neg"]) + o["en"])}:
            cf, cp = joint[0].copy(), joint[1].copy()
            for arr, p, n_ in ((cf, fnr, nf), (cp, fpr, np_)):
                for i in range(len(p)):
                    if p[i] == 0.0:
                        arr[i] = [0.0, 1 - math.pow(alpha, 1 / n_)]
                    elif p[i] == 1.0:
                        arr[i] = [math.pow(alpha, 1 / n_), 1.0]
            if (np.allclose(_envelope(fnr, cf, cp), c.fpr_ci, rtol=0, atol=1e-12)
                    and np.allclose(_envelope(fpr, cp, cf), c.fnr_ci, rtol=0, atol=1e-12)):
                ok = True
        require(ok, "band:not-the-envelope-of-the-bootstrap-intervals",
                lambda: f"{ctx}: fnr band {np.asarray(c.fnr_ci).tolist()[:4]}... differs from the envelope of the "
                        f"pointwise {case['ci']} intervals replayed under the same seed")
    return dict(nontrivial=case["nb"] >= 5, labels=[f"sup:{case['sup']['kind']}", f"ci:{case['ci']}",
                                                    f"sampler:{case['method']}/{case['strat']}"])


# -------------------------------------------------------------- clause: closed form (identity)
@st.composite
def _ident_cases(draw):
    o = draw(_score_objects(max_size=12))
    sup = draw(_support(o["pos"] + o["neg"], packed=bool(o.get("packed"))))
    return dict(o=o, sup=sup, ci=draw(st.sampled_from(CI_METHODS)),
                alpha=draw(st.sampled_from([0.01, 0.05, 0.3, 0.5, 0.7, 0.95])), nb=draw(st.integers(2, 4)),
                alpha_kind=draw(st.sampled_from(["py", "py", "float32", "float16", "float64"])),
                x_axis=draw(st.sampled_from(["fpr", "fnr", "tpr", "tnr"])))


def _envelope(x, dx, dy):
    """band[i] = min / max of the y-limits over all rectangles j whose x-extent contains x[i]
    (always including rectangle i itself)."""
    x = np.asarray(x, dtype=float)
    n = len(x)
    out = np.empty((n, 2))
    for a in range(0, n, 512):  # row blocks only bound the temporary; every row sees ALL rectangles
        xs = x[a:a + 512, None]
        inside = (dx[None, :, 0] <= xs) & (xs <= dx[None, :, 1])
        lo = np.where(inside, dy[None, :, 0], np.inf).min(axis=1)
        hi = np.where(inside, dy[None, :, 1], -np.inf).max(axis=1)
        out[a:a + 512, 0] = np.minimum(lo, dy[a:a + 512, 0])
        out[a:a + 512, 1] = np.maximum(hi, dy[a:a + 512, 1])
    return out


def check_identity(case):
    from score_analysis import BootstrapConfig, roc_with_ci

    o = case["o"]
    s = _mk(o)
    alpha = case["alpha"]
    alpha_arg = alpha
    if case.get("alpha_kind", "py") != "py":
        # a significance level held as a NumPy scalar of some precision: the level meant is the value held
        alpha_arg = np.dtype(case["alpha_kind"]).type(alpha)
        alpha = float(alpha_arg)
    cfg = BootstrapConfig(nb_samples=case["nb"], bootstrap_method=case["ci"], sampling_method=lambda x: x)
    ctx = f"roc_with_ci identity sampler ci={case['ci']} alpha={alpha_arg!r} support={case['sup']} object={o}"
    c = roc_with_ci(s, alpha=alpha_arg, config=cfg, x_axis=case["x_axis"], **_kwargs(case["sup"]))
    wellformed(c, s, ctx, unit_interval=True)
    fnr, fpr = np.asarray(c.fnr, dtype=float), np.asarray(c.fpr, dtype=float)
    v_fnr = np.asarray(s.fnr(s.threshold_at_fpr(fpr)), dtype=float)
    v_fpr = np.asarray(s.fpr(s.threshold_at_fnr(fnr)), dtype=float)
    n_hard = {"fnr": len(o["pos"]), "fpr": len(o["neg"])}
    n_all = {"fnr": len(o["pos"]) + o["ep"], "fpr": len(o["neg"]) + o["en"]}

    def pointwise(p, v, n):
        ci = np.stack([v, v], axis=-1)
        for i in range(len(p)):
            if p[i] == 0.0:
                ci[i] = [0.0, 1 - math.pow(alpha, 1 / n)]
            elif p[i] == 1.0:
                ci[i] = [math.pow(alpha, 1 / n), 1.0]
        return ci

    # the property does not say whether n counts scored or all samples of the class: accept both,
    # but the rule must be applied exactly where the observed rate is exactly 0 or 1
    ok = False
    tried = []
    for nf, np_ in {(n_hard["fnr"], n_hard["fpr"]), (n_all["fnr"], n_all["fpr"])}:
        cf, cp = pointwise(fnr, v_fnr, nf), pointwise(fpr, v_fpr, np_)
        e_fpr = _envelope(fnr, cf, cp)
        e_fnr = _envelope(fpr, cp, cf)
        tried.append((e_fnr, e_fpr))
        if np.allclose(e_fpr, c.fpr_ci, rtol=0, atol=1e-12) and np.allclose(e_fnr, c.fnr_ci, rtol=0, atol=1e-12):
            ok = True
    require(ok, "band:closed-form",
            lambda: f"{ctx}: fnr band {np.asarray(c.fnr_ci).tolist()} fpr band {np.asarray(c.fpr_ci).tolist()}; "
                    f"closed form (n = all samples) fnr {tried[-1][0].tolist()} fpr {tried[-1][1].tolist()}; "
                    f"curve fnr={fnr.tolist()} fpr={fpr.tolist()}")
    extreme = bool(np.any((fnr == 0) | (fnr == 1) | (fpr == 0) | (fpr == 1)))
    inside = bool(np.any((fnr > 0) & (fnr < 1)) or np.any((fpr > 0) & (fpr < 1)))
    labels = [f"sup:{case['sup']['kind']}", f"ci:{case['ci']}"] + (["easy"] if o["ep"] or o["en"] else [])
    return dict(nontrivial=extreme and inside, labels=labels)


# -------------------------------------------------------------- clause: experimental bands
@st.composite
def _exp_cases(draw):
    fn = draw(st.sampled_from(["pointwise_band_ci", "simultaneous_joint_region_ci", "fixed_width_band_ci"]))
    o = draw(_score_objects(max_size=24, min_size=1))
    shape = draw(st.sampled_from(["any", "any", "any", "few-neg", "few-pos"] if fn != "fixed_width_band_ci"
                                 else ["any", "few-neg", "few-pos", "few-pos"]))
    if shape != "any":
        # very unbalanced classes (the fixed-width search is sensitive to the class ratio, in
        # either direction; beyond 16:1 its displacement slope leaves [1/4, 4])
        small = [k / 2 for k in draw(st.lists(st.integers(-20, 20), min_size=1, max_size=3))]
        lo_big = 16 * len(small) + 1 if shape == "few-pos" or draw(st.booleans()) else 17
        big = [k / 2 for k in draw(st.lists(st.integers(-20, 20), min_size=lo_big, max_size=lo_big + 43))]
        o = dict(o, pos=big if shape == "few-neg" else small, neg=small if shape == "few-neg" else big,
                 mode="grid")
    if fn == "simultaneous_joint_region_ci" and draw(st.integers(0, 5)) == 0:
        # evaluation sets of billions of samples, nearly all of them easy (what easy samples are for)
        which = draw(st.sampled_from(["ep", "en"]))
        o = dict(o, **{which: draw(st.sampled_from([10**7, 10**9, 10**11, 10**12]))})
    sup = draw(_support(o["pos"] + o["neg"], spanning=(fn == "fixed_width_band_ci"), packed=bool(o.get("packed"))))
    method, strat = draw(st.sampled_from(BUILTIN))
    return dict(fn=fn, o=o, sup=sup, method=method, strat=strat, ci=draw(st.sampled_from(CI_METHODS)),
                alpha=draw(st.one_of(st.floats(min_value=0.01, max_value=0.5),
                                     st.floats(min_value=0.5, max_value=0.99))),
                nb=draw(st.integers(5, 20) if shape == "any" else st.integers(20, 40)),
                seed=draw(gen.RNG_SEED), identity=draw(st.sampled_from([False, False, True])))


def check_experimental(case):
    from score_analysis import BootstrapConfig
    from score_analysis import experimental

    s = _mk(case["o"])
    sampler = (lambda x: x) if case["identity"] else case["method"]
    cfg = BootstrapConfig(nb_samples=case["nb"], bootstrap_method=case["ci"], sampling_method=sampler,
                          stratified_sampling=None if case["identity"] else case["strat"])
    np.random.seed(case["seed"])
    o = case["o"]
    ctx = (f"{case['fn']} n_pos={len(o['pos'])} n_neg={len(o['neg'])} ep={o['ep']} en={o['en']} "
           f"{o['sc']}/{o['ec']} support={case['sup']} sampler={'identity' if case['identity'] else case['method']} "
           f"ci={case['ci']} alpha={case['alpha']!r} seed={case['seed']}")
    f = getattr(experimental, case["fn"])
    c = f(s, alpha=case["alpha"], config=cfg, **_kwargs(case["sup"]))
    wellformed(c, s, ctx, unit_interval=False)
    unbalanced = len(o["neg"]) * 16 < len(o["pos"]) or len(o["pos"]) * 16 < len(o["neg"])
    if case["fn"] == "fixed_width_band_ci" and unbalanced and not case["identity"]:
        # the search for the band width depends on the bootstrap samples drawn: a few more RNG states
        for extra in range(1, 7):
            np.random.seed((case["seed"] + extra) % 2**32)
            c = f(s, alpha=case["alpha"], config=cfg, **_kwargs(case["sup"]))
            wellformed(c, s, f"{ctx} (+{extra})", unit_interval=False)
    labels = [case["fn"], f"sup:{case['sup']['kind']}"]
    if len(o["neg"]) * 16 < len(o["pos"]) or len(o["pos"]) * 16 < len(o["neg"]):
        labels.append("very-unbalanced")
    return dict(nontrivial=True, labels=labels)


# -------------------------------------------------------------- clause: rule-of-three by class size
def _size_cases(tier):
    """Every class size n: the rule-of-three trigger compares a rate with 1/n and (n-1)/n, which is
    sensitive to floating-point rounding for particular n only (cf. C03)."""
    nmax = 400 if tier == "quick" else 3000
    huge = [99_999, 100_003, 150_000, 10**6, 10**8, 3 * 10**8, 10**9, 2**31 + 5, 10**12]
    for n in list(range(1, nmax + 1)) + huge:
        h = min(n, 4)
        hard = [1.0, 2.0, 3.0, 4.0][:h]
        other = [0.5, 1.5, 2.5]
        for orient in ("pos", "neg"):
            o = dict(pos=hard if orient == "pos" else other, neg=other if orient == "pos" else hard,
                     ep=(n - h) if orient == "pos" else 0, en=(n - h) if orient == "neg" else 0,
                     sc=("pos", "neg")[n % 2], ec=("pos", "neg")[(n // 2) % 2], mode="grid")
            yield dict(o=o, sup=dict(kind="nothing"), ci="quantile", alpha=(0.05, 0.5, 0.9)[n % 3], nb=2,
                       x_axis="fpr", n=n)


def _large_cases(tier):
    """Curves with thousands of support points (the aggregation over rectangles is quadratic)."""
    sizes = [1100, 2100] if tier == "quick" else [1100, 1500, 2100, 3100, 4200]
    for k, nb in enumerate(sizes):
        pos = [0.25 * ((7 * i + k) % 40) for i in range(24)]
        neg = [0.25 * ((11 * i + 3 * k) % 40) - 2.0 for i in range(24)]
        for sc, ec in (("pos", "pos"), ("neg", "pos")):
            yield dict(o=dict(pos=pos, neg=neg, ep=k % 2, en=(k + 1) % 3, sc=sc, ec=ec, mode="grid"),
                       sup=dict(kind="nb_points", nb_points=nb), ci="quantile", alpha=0.3, nb=2, x_axis="fpr")
    # ... and all-scores supports of many tied scores
    for nscores in ([700] if tier == "quick" else [700, 1300]):
        pos = [0.5 * ((13 * i) % 97) for i in range(nscores)]
        neg = [0.5 * ((17 * i) % 89) - 5.0 for i in range(nscores - 50)]
        yield dict(o=dict(pos=pos, neg=neg, ep=0, en=0, sc="pos", ec="pos", mode="grid"),
                   sup=dict(kind="nothing"), ci="quantile", alpha=0.1, nb=2, x_axis="fnr")


def _fwb_unbalanced(case):
    """D7a: fixed_width_band_ci cannot initialise its search when len(neg)/len(pos) < 1/16."""
    o = case["o"]
    return case.get("fn") == "fixed_width_band_ci" and len(o["neg"]) * 16 < len(o["pos"])


def _fwb_two_point_curve(case):
    """D7b: fixed_width_band_ci on the two-point curve of one positive and one negative score
    (all-scores support) never finds a containing tube."""
    o = case["o"]
    return (case.get("fn") == "fixed_width_band_ci" and len(o["pos"]) == 1 and len(o["neg"]) == 1
            and case["sup"]["kind"] == "nothing")


PROP = Prop(
    id="C16",
    rule=("Hypothesis: Scores with both classes non-empty (1-24 scores per class, ties or tie-free, "
          "easy counts 0..30, 4 configs), support given by fnr / fpr / both / thresholds / "
          "nb_points / nothing, alpha in [0.01,0.99], CI method quantile/bc/bca, x_axis, built-in "
          "sampling configurations (5) under a np.random seed with 5-30 replicates, and the "
          "identity sampler. Oracles: all four band functions return; curve rates == the object's "
          "rates at the returned thresholds; bands of shape (n,2), NaN-free, lower<=upper; "
          "roc_with_ci within [0,1] and monotone along x; roc_with_ci under the identity sampler == "
          "closed form: pointwise interval [v,v] with v = fnr(threshold_at_fpr(fpr_i)) / "
          "fpr(threshold_at_fnr(fnr_i)), replaced by the rule-of-three interval exactly where the "
          "observed rate is exactly 0 or 1 (n = scored or all samples both accepted), band = min/max "
          "over all rectangles whose x-extent contains the point (double loop), atol 1e-12. "
          "fixed_width_band_ci only on spanning supports (nb_points>=4 or all scores). Exhaustive "
          "part: the closed form for every class size n = 1..400 (quick) / 1..3000 (thorough) in "
          "either class (n-4 easy samples), because the rule-of-three trigger compares with 1/n and "
          "(n-1)/n. alpha ranges over [0.01,0.99] for every function. "
          "Non-trivial = >=5 replicates (built-in); a support point with rate exactly 0/1 and one "
          "strictly inside (identity); every case (experimental)."),
    clauses=[
        Clause("roc_with_ci", check_real, strategy=_real_cases(), quick=80, thorough=3200,
               quick_shards=4, min_nontrivial=50, doc="well-formed bands, built-in samplers"),
        Clause("closed_form", check_identity, strategy=_ident_cases(), quick=150, thorough=5600,
               quick_shards=4, min_nontrivial=80, doc="identity sampler: envelope closed form"),
        Clause("rule_of_three_sizes", check_identity, kind="enum", cases=_size_cases, quick_shards=4,
               shards=16, min_nontrivial=100,
               doc="closed form for every class size 1..400 (quick) / 1..3000 (thorough), all-scores support"),
        Clause("large_support", check_identity, kind="enum", cases=_large_cases, quick_shards=5, shards=12,
               min_nontrivial=3, doc="closed form on curves with 700-4200 support points"),
        Clause("experimental", check_experimental, strategy=_exp_cases(), quick=150, thorough=4000,
               quick_shards=4, min_nontrivial=80, doc="the three experimental band functions"),
    ],
    predicates={"fwb_unbalanced": _fwb_unbalanced, "fwb_two_point_curve": _fwb_two_point_curve},
    assumptions=["alpha >= 0.01 with <= 30 replicates keeps BCa away from its pole (C13 carve-out)",
                 "the number of extra support points is not asserted (not stated by the property)"],
)

RULE_EXTRA = ('alpha up to 0.99; enumeration of every class size 1..400 (quick) / 1..3000 (thorough) plus 1e5..1e12; curves with 700-4200 support points. User thresholds -inf / +inf; nb_points as np.int8(127) / np.uint8(255).')
