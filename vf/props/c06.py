"""C06 - EER is a crossing point of FPR and FNR."""

from __future__ import annotations

import numpy as np
from hypothesis import strategies as st

from .. import gen
from ..harness import Clause, Prop, require
from ..oracles import CONFIGS

FLIP = {"pos": "neg", "neg": "pos"}
ARRS = ("mixed", "mixed", "mixed", "separated", "inverted", "near_sep", "near_inv")


@st.composite
def _tiefree(draw, max_size=12):
    n = draw(st.integers(1, max_size))
    m = draw(st.integers(1, max_size))
    ks = draw(st.lists(st.integers(-2000, 2000), min_size=n + m, max_size=n + m, unique=True))
    a = draw(st.sampled_from([1.0, 0.5, 0.25, 3.0, 0.1, 7.3, 1000.0, 1e-3, 1e-6, 1e-9, 1e6]))
    # fine scales only around 0 so that the separation stays far above one ulp
    b = draw(st.sampled_from([0.0, 1.0, -17.5, 0.3, 1234.5])) if a >= 1e-3 else 0.0
    arr = draw(st.sampled_from(ARRS))
    s = sorted(ks)
    if arr == "mixed":
        pos, neg = ks[:n], ks[n:]
    elif arr in ("separated", "near_sep"):
        neg, pos = s[:m], s[m:]
        if arr == "near_sep" and n > 0 and m > 0:
            pos[0], neg[-1] = neg[-1], pos[0]
    else:
        pos, neg = s[:n], s[n:]
        if arr == "near_inv":
            pos[-1], neg[0] = neg[0], pos[-1]
    # (the last option: "virtual" data sets with 1e4-1e6 easy samples per scored one)
    ez = st.one_of(st.just(0), st.just(0), st.integers(1, 5), st.integers(6, 200),
                   st.sampled_from([100_000, 1_000_000, 5_000_000]))
    cluster = None
    if draw(st.integers(0, 5)) == 0:
        # one class packed into a tiny interval inside a gap of the other class (scores 1e-10..1e-12
        # apart next to scores 1 apart): all distinct, but the threshold must be resolved far below
        # the coarse spacing
        cluster = dict(which=draw(st.sampled_from(["pos", "neg"])), sp=draw(st.sampled_from([1e-10, 1e-11, 1e-12])),
                       at=draw(st.integers(-3, 3)) + 0.25, size=draw(st.integers(8, 40)))
        a, b = 1.0, 0.0
        # the other class: a handful of integers around the cluster, no easy samples (the returned
        # threshold is a float image of a rate; its resolution is gap * N * 1e-16)
        other = draw(st.lists(st.integers(-8, 8), min_size=2, max_size=10, unique=True))
        pos, neg = (pos, other) if cluster["which"] == "pos" else (other, neg)
        return dict(cluster=cluster, kpos=list(pos), kneg=list(neg), a=a, b=b, ep=0, en=0, arr="cluster", centre=None,
                    a2=draw(st.sampled_from([0.5, 2.0])), b2=float(draw(st.integers(-8, 8))))
    return dict(cluster=cluster, kpos=list(pos), kneg=list(neg), a=a, b=b, ep=draw(ez), en=draw(ez), arr=arr,
                assign=draw(st.sampled_from([None, None, None, "same-strings", "other-then-assign"])),
                centre=draw(st.sampled_from([None, None, "gap", "all"])),
                a2=draw(st.sampled_from([0.5, 2.0, 3.0, 0.1, 7.3, 1e-4, 1e-7, 1e4])),
                b2=draw(st.floats(min_value=-50, max_value=50)))


def _mk(pos, neg, ep, en, sc, ec, assign=None):
    from score_analysis import Scores

    if assign == "other-then-assign":
        # built under the opposite convention, then switched through the public attributes
        o = Scores(np.asarray(pos, dtype=float), np.asarray(neg, dtype=float), nb_easy_pos=ep,
                   nb_easy_neg=en, score_class=FLIP[sc], equal_class=FLIP[ec])
        o.score_class, o.equal_class = sc, ec
        return o
    o = Scores(np.asarray(pos, dtype=float), np.asarray(neg, dtype=float), nb_easy_pos=ep,
               nb_easy_neg=en, score_class=sc, equal_class=ec)
    if assign == "same-strings":
        o.score_class, o.equal_class = sc, ec  # the strings the constructor takes, assigned again
    return o


def check_crossing(case):
    a, b = case["a"], case["b"]
    pos = [a * k + b for k in case["kpos"]]
    neg = [a * k + b for k in case["kneg"]]
    cl = case.get("cluster")
    if cl:
        packed = [cl["at"] + j * cl["sp"] for j in range(cl["size"])]
        if cl["which"] == "pos":
            pos = packed
        else:
            neg = packed
    if case.get("centre") and not cl:
        # translate so that a derived quantity is exactly 0: the midpoint between the innermost
        # samples of the two classes ("gap"), or the midpoint of the whole score range ("all")
        if case["centre"] == "gap":
            cands = [(min(pos), max(neg)), (max(pos), min(neg))]
            lo_, hi_ = min(cands, key=lambda c: abs(c[0] - c[1]))
            mid = (lo_ + hi_) / 2
        else:
            mid = (min(pos + neg) + max(pos + neg)) / 2
        npos, nneg = [x - mid for x in pos], [x - mid for x in neg]
        if len(set(npos + nneg)) == len(pos + neg):
            pos, neg = npos, nneg
    ep, en = case["ep"], case["en"]
    P, Nn = len(pos) + ep, len(neg) + en
    rng = max(pos + neg) - min(pos + neg) + a
    a2, b2 = case["a2"], case["b2"]
    if a * a2 < 1e-6:
        b2 = 0.0  # keep the mapped scores far more than one ulp apart
    if cl:
        a2, b2 = (2.0 if a2 >= 1 else 0.5), float(round(b2))  # exact maps only: the cluster must stay distinct
    overlap = False
    for sc, ec in CONFIGS:
        ctx = f"config={sc}/{ec}"
        s = _mk(pos, neg, ep, en, sc, ec, case.get("assign"))
        t, e = s.eer()
        t, e = float(t), float(e)
        require(0.0 <= e <= 1.0, "eer:range", f"{ctx} eer={e!r}")
        fpr, fnr = float(s.fpr(t)), float(s.fnr(t))
        # one sample, plus a slack for the root finder (1e-6, at most 1% of a sample); in the cluster
        # stratum two samples: the threshold is resolved to a few 1e-14, a crossing that close to a
        # cluster point may land on its other side
        one = 2.0 if cl else 1.0
        require(abs(fpr - e) <= one / Nn + min(1e-6, 0.01 / Nn), "eer:fpr-crossing",
                lambda: f"{ctx} t={t!r} eer={e!r} FPR(t)={fpr!r}: off by {abs(fpr - e) * Nn:.4f} samples of 1/{Nn}")
        require(abs(fnr - e) <= one / P + min(1e-6, 0.01 / P), "eer:fnr-crossing",
                lambda: f"{ctx} t={t!r} eer={e!r} FNR(t)={fnr!r}: off by {abs(fnr - e) * P:.4f} samples of 1/{P}")
        cap = min(len(pos) / P, len(neg) / Nn)
        require(e <= cap + 1e-9, "eer:cap", f"{ctx} eer={e!r} > min hard fraction {cap!r}")
        if ep == 0 and en == 0:
            from score_analysis import GroupScores

            g = GroupScores(np.asarray(pos, dtype=float), np.asarray(neg, dtype=float),
                            pos_groups=np.asarray(["g"] * len(pos)), neg_groups=np.asarray(["g"] * len(neg)),
                            score_class=sc, equal_class=ec)
            tg, eg = g.eer()
            fpr_g, fnr_g = float(g.fpr(tg)), float(g.fnr(tg))
            require(abs(fpr_g - eg) <= one / Nn + 1e-6 and abs(fnr_g - eg) <= one / P + 1e-6,
                    "eer:group-scores-crossing",
                    lambda: f"{ctx} GroupScores over the same (unsorted) data: eer()=({tg!r},{eg!r}) but "
                            f"FPR(t)={fpr_g!r} FNR(t)={fnr_g!r}")
            require(abs(eg - e) <= 1e-9 and abs(tg - t) <= 1e-9 * rng, "eer:group-scores-differs",
                    f"{ctx} Scores.eer()=({t!r},{e!r}) GroupScores.eer()=({tg!r},{eg!r})")
        if 0 < e < 1:
            overlap = True
        # increasing affine map
        pa = [a2 * x + b2 for x in pos]
        na = [a2 * x + b2 for x in neg]
        ta, ea = _mk(pa, na, ep, en, sc, ec).eer()
        require(abs(ea - e) <= 1e-8, "eer:affine-value", f"{ctx} {e!r} vs {ea!r} under {a2}*s+{b2}")
        require(abs(ta - (a2 * t + b2)) <= 1e-6 * a2 * rng, "eer:affine-threshold",
                lambda: f"{ctx} t={t!r} -> {ta!r}, expected {a2 * t + b2!r}")
        # reversed direction
        tn, e_n = _mk([-x for x in pos], [-x for x in neg], ep, en, FLIP[sc], ec).eer()
        require(abs(e_n - e) <= 1e-8, "eer:negation-value", f"{ctx} {e!r} vs {e_n!r}")
        require(abs(tn + t) <= 1e-6 * rng, "eer:negation-threshold",
                lambda: f"{ctx} t={t!r} negated object gives {tn!r}")
    labels = [f"arr:{case['arr']}"] + (["easy"] if ep or en else []) + ([f"cluster:{cl['sp']}"] if cl else [])
    return dict(nontrivial=overlap or bool(ep or en), labels=labels)


# ---------------------------------------------------------------------- large inverted classes
def _inverted_cases(tier):
    """Perfectly inverted classes of about a thousand scores with a few easy samples each: the two
    hard-sample fractions are then close but not equal."""
    sizes = [(1000, 999, 1, 1), (999, 1000, 1, 1), (5000, 4999, 3, 3), (2000, 2000, 5, 5), (1200, 1199, 2, 1),
             # a dozen scored samples under billions of easy ones: both hard fractions below 1e-8, far from equal
             (12, 10, 5 * 10**9, 10**9), (12, 10, 10**9, 5 * 10**9), (12, 10, 10**10, 10**10 + 5), (3, 7, 10**12, 3 * 10**11),
             # hard fractions that differ by less than 1e-5 relative, yet by several samples (D30)
             (400_000, 400_000, 400_000, 399_994), (400_000, 400_000, 399_997, 400_000)]
    if tier != "quick":
        sizes += [(20000, 19999, 7, 7), (1000, 999, 2, 2), (999, 1000, 3, 3), (3000, 2998, 1, 1)]
    for n, m, ep, en in sizes:
        for sc, ec in CONFIGS:
            yield dict(n=n, m=m, ep=ep, en=en, sc=sc, ec=ec)


def check_inverted(case):
    n, m, ep, en, sc, ec = (case[k] for k in ("n", "m", "ep", "en", "sc", "ec"))
    # inverted: the class the scores should favour lies entirely on the wrong side
    off = 10_000.25 + 0.5 * max(n, m)
    if sc == "pos":
        pos, neg = np.arange(n) * 0.5, off + np.arange(m) * 0.5
    else:
        pos, neg = off + np.arange(n) * 0.5, np.arange(m) * 0.5
    s = _mk(pos.tolist(), neg.tolist(), ep, en, sc, ec)
    t, e = s.eer()
    t, e = float(t), float(e)
    P, Nn = n + ep, m + en
    cap = min(n / P, m / Nn)
    ctx = f"inverted classes n={n} m={m} ep={ep} en={en} config={sc}/{ec}"
    require(0.0 <= e <= cap + 1e-9, "eer:cap", f"{ctx}: eer={e!r} exceeds the smaller hard-sample fraction {cap!r} by {e - cap:.3g}")
    fpr, fnr = float(s.fpr(t)), float(s.fnr(t))
    require(abs(fpr - e) <= 1.0 / Nn + min(1e-6, 0.01 / Nn) and abs(fnr - e) <= 1.0 / P + min(1e-6, 0.01 / P),
            "eer:fpr-crossing", f"{ctx}: t={t!r} eer={e!r} FPR(t)={fpr!r} FNR(t)={fnr!r}")
    return dict(nontrivial=True, labels=["inverted-large"])


# ---------------------------------------------------------------------- a packed class among very many scores
def _packed_cases(tier):
    """Thousands of scores of one class packed 1e-12 apart inside the central gap of 2e5-6e5 scores of the
    other class: each inverse curve resolves thresholds only to (its class size x its local spacing) x 1e-16,
    so it matters which of the two the threshold is read from."""
    sizes = [(200_000, 2000, 1e-12), (600_000, 4000, 1e-12)] if tier == "quick" else \
        [(200_000, 2000, 1e-12), (600_000, 4000, 1e-12), (300_000, 1000, 1e-11), (100_000, 3000, 1e-12)]
    for n_wide, n_packed, sp in sizes:
        for which in ("pos", "neg"):
            for sc, ec in CONFIGS:
                yield dict(n_wide=n_wide, n_packed=n_packed, sp=sp, which=which, sc=sc, ec=ec)


def check_packed(case):
    n_wide, n_packed, sp, which, sc, ec = (case[k] for k in ("n_wide", "n_packed", "sp", "which", "sc", "ec"))
    half = n_wide // 2
    wide = np.concatenate([-1000.0 + 999.0 * np.arange(half) / half, 1.0 + 999.0 * np.arange(n_wide - half) / (n_wide - half)])
    packed = 0.125 + sp * np.arange(n_packed)
    pos, neg = (packed, wide) if which == "pos" else (wide, packed)
    from score_analysis import Scores

    s = Scores(pos, neg, score_class=sc, equal_class=ec)
    t, e = s.eer()
    t, e = float(t), float(e)
    P, Nn = len(pos), len(neg)
    fpr, fnr = float(s.fpr(t)), float(s.fnr(t))
    ctx = f"{n_packed} {which} scores {sp} apart inside the gap of {n_wide} scores of the other class, config={sc}/{ec}"
    require(abs(fpr - e) <= 2.0 / Nn + 1e-9 and abs(fnr - e) <= 2.0 / P + 1e-9, "eer:fpr-crossing",
            f"{ctx}: t={t!r} eer={e!r} FPR(t)={fpr!r} (off by {abs(fpr - e) * Nn:.1f} samples) FNR(t)={fnr!r} "
            f"(off by {abs(fnr - e) * P:.1f} samples)")
    return dict(nontrivial=0 < e < 1, labels=["packed-large"])


# ---------------------------------------------------------------------- crossing near the end of a packed run
def _packed_edge_cases(tier):
    """3000 scores of one class 2^-40 apart between two far-away groups of the same class, the other class
    spread widely with a gap around the run; the curves cross 20-25 samples from an end of the run, so
    whatever the library probes around the crossing must stay well inside one sample."""
    for from_top in (True, False):
        for dist in (20, 25) if tier == "quick" else (5, 20, 25, 60, 200):
            for which in ("pos", "neg"):
                for easy in (0, 40000):
                    for sc, ec in CONFIGS:
                        yield dict(from_top=from_top, dist=dist, which=which, easy=easy, sc=sc, ec=ec)


def check_packed_edge(case):
    from_top, dist, which, easy, sc, ec = (case[k] for k in ("from_top", "dist", "which", "easy", "sc", "ec"))
    n_side, n_run = 18500, 3000
    run = 0.5 + np.arange(n_run) * 2.0**-40
    packed = np.concatenate([-1.0e6 - 0.25 - 7.0 * np.arange(n_side), run, 1.0e6 + 0.25 + 7.0 * np.arange(n_side)])
    k = n_run - dist if from_top else dist
    below = n_side + k  # packed-class scores below the crossing
    n = len(packed)
    wide = np.concatenate([-1.0e5 - 50.0 * np.arange(n - below)[::-1], 1.0e5 + 50.0 * np.arange(below)])
    # as built: packed positives accepted above the threshold; the other roles by reflection
    pos, neg = (packed, wide) if which == "pos" else (-wide, -packed)
    if sc == "neg":
        pos, neg = -pos, -neg
    from score_analysis import Scores

    s = Scores(pos, neg, nb_easy_pos=easy, nb_easy_neg=easy, score_class=sc, equal_class=ec)
    t, e = s.eer()
    t, e = float(t), float(e)
    P, Nn = len(pos) + easy, len(neg) + easy
    fpr, fnr = float(s.fpr(t)), float(s.fnr(t))
    ctx = (f"run of {n_run} {which} scores 2^-40 apart, crossing {dist} from its {'upper' if from_top else 'lower'} end, "
           f"easy={easy}, config={sc}/{ec}")
    require(abs(fpr - e) <= 2.0 / Nn + 1e-9 and abs(fnr - e) <= 2.0 / P + 1e-9, "eer:fpr-crossing",
            f"{ctx}: t={t!r} eer={e!r} FPR(t)={fpr!r} (off by {abs(fpr - e) * Nn:.1f} samples) FNR(t)={fnr!r} "
            f"(off by {abs(fnr - e) * P:.1f} samples)")
    return dict(nontrivial=0 < e < 1, labels=["packed-edge"])


# ---------------------------------------------------------------------- separated classes, one pair barely exchanged
def _barely_cases(tier):
    """Classes separated around 0 (scores k + 0.5 and -k - 0.5) except that the highest negative lies a hair
    (1e-13 .. 1e-10, i.e. 1e3 .. 1e6 ulps) above the lowest positive: the classifier makes exactly one kind of
    error, and the curves cross at a rate far below anything a fixed probe step resolves."""
    for n, m in ((3, 3), (10, 7), (40, 40), (1, 5)) if tier == "quick" else ((3, 3), (10, 7), (40, 40), (1, 5), (200, 150), (2, 1)):
        for ov in (1e-13, 1e-12, 1e-11, 1e-10):
            for easy in (0, 5):
                for sc, ec in CONFIGS:
                    yield dict(n=n, m=m, ov=ov, easy=easy, sc=sc, ec=ec)


def check_barely(case):
    n, m, ov, easy, sc, ec = (case[k] for k in ("n", "m", "ov", "easy", "sc", "ec"))
    pos = 0.5 + np.arange(n)
    neg = -0.5 - np.arange(m)
    neg[0] = 0.5 + ov  # the highest negative, a hair above the lowest positive
    if sc == "neg":
        pos, neg = -pos, -neg
    from score_analysis import Scores

    s = Scores(pos, neg, nb_easy_pos=easy, nb_easy_neg=easy, score_class=sc, equal_class=ec)
    t, e = s.eer()
    t, e = float(t), float(e)
    P, Nn = n + easy, m + easy
    fp_, fn_ = _count(pos, neg, t, sc, ec)
    fpr, fnr = fp_ / Nn, fn_ / P
    ctx = f"{n} positives / {m} negatives separated except for one pair exchanged by {ov}, easy={easy}, config={sc}/{ec}"
    require(abs(fpr - e) <= 1.0 / Nn + 1e-9 and abs(fnr - e) <= 1.0 / P + 1e-9, "eer:fpr-crossing",
            f"{ctx}: t={t!r} eer={e!r}; counting at t gives FPR={fpr!r} FNR={fnr!r}")
    require(e <= 1.0 / min(P, Nn) + 1e-9, "eer:cap",
            f"{ctx}: eer={e!r}, but a threshold between the classes makes at most one error per class")
    return dict(nontrivial=True, labels=["barely-inverted"])


def _count(pos, neg, t, sc, ec):
    """(false positives, false negatives) at t by the decision rule, counted on the arrays."""
    pos, neg = np.asarray(pos, dtype=float), np.asarray(neg, dtype=float)
    if sc == "pos":
        acc_p = pos >= t if ec == "pos" else pos > t
        acc_n = neg >= t if ec == "pos" else neg > t
    else:
        acc_p = pos <= t if ec == "pos" else pos < t
        acc_n = neg <= t if ec == "pos" else neg < t
    return int(acc_n.sum()), int((~acc_p).sum())


# ---------------------------------------------------------------------- subsamples made by the library
@st.composite
def _subsample_cases(draw):
    n, m = draw(st.integers(4, 30)), draw(st.integers(4, 30))
    ks = draw(st.lists(st.integers(-500, 500), min_size=n + m, max_size=n + m, unique=True))
    return dict(kpos=ks[:n], kneg=ks[n:], ratio=draw(st.sampled_from([0.5, 0.75, 0.34])), seed=draw(gen.RNG_SEED),
                a=draw(st.sampled_from([1.0, 0.25, 3.0])))


def check_subsample(case):
    """A proportion subsample (drawn without replacement, hence tie-free) of a tie-free object is a subject like
    any other: its EER is a crossing point of the rates counted on the subsample's own scores."""
    from score_analysis import BootstrapConfig, Scores

    a = case["a"]
    pos, neg = [a * k for k in case["kpos"]], [a * k + a / 2 for k in case["kneg"]]
    nontrivial = False
    for sc, ec in CONFIGS:
        src = Scores(np.asarray(pos), np.asarray(neg), score_class=sc, equal_class=ec)
        np.random.seed(case["seed"])
        sub = src.bootstrap_sample(BootstrapConfig(sampling_method="proportion", ratio=case["ratio"]))
        t, e = sub.eer()
        t, e = float(t), float(e)
        P, Nn = len(sub.pos), len(sub.neg)
        fp_, fn_ = _count(sub.pos, sub.neg, t, sc, ec)
        ctx = f"proportion subsample (ratio {case['ratio']}, seed {case['seed']}) of pos={pos} neg={neg}, config={sc}/{ec}"
        require(abs(fp_ / Nn - e) <= 1.0 / Nn + 1e-6 and abs(fn_ / P - e) <= 1.0 / P + 1e-6, "eer:fpr-crossing",
                lambda: f"{ctx}: subsample pos={sub.pos.tolist()} neg={sub.neg.tolist()} eer()=({t!r},{e!r}); counting at t "
                        f"gives FPR={fp_}/{Nn} FNR={fn_}/{P}")
        require(not (e == 0.0 and (fp_ or fn_)), "eer:zero-with-errors", ctx)
        nontrivial = nontrivial or 0 < e < 1
    return dict(nontrivial=nontrivial, labels=["subsample"])


# ---------------------------------------------------------------------- a packed class under very many easy samples
def _packed_easy_cases(tier):
    """A few hundred scores of one class 1e-12 apart, the other class far away on both sides, and 1e9-1e13
    easy samples per class: the EER itself is below 1e-7, so anything the library does "a little to either
    side" of it has to scale with it (D30)."""
    for easy in (10**9, 10**11, 10**13) if tier == "quick" else (10**8, 10**9, 10**10, 10**11, 10**12, 10**13):
        for which in ("pos", "neg"):
            for sc, ec in CONFIGS:
                yield dict(easy=easy, which=which, sc=sc, ec=ec)


def check_packed_easy(case):
    easy, which, sc, ec = (case[k] for k in ("easy", "which", "sc", "ec"))
    packed = np.concatenate([0.5 + np.arange(200) * 1e-12, [-1e7, 1e7]])
    wide = np.concatenate([-100.0 - np.arange(100), 1e5 + np.arange(100)])
    pos, neg = (packed, wide) if which == "pos" else (wide, packed)
    from score_analysis import Scores

    s = Scores(pos, neg, nb_easy_pos=easy, nb_easy_neg=easy, score_class=sc, equal_class=ec)
    t, e = s.eer()
    t, e = float(t), float(e)
    P, Nn = len(pos) + easy, len(neg) + easy
    fpr, fnr = float(s.fpr(t)), float(s.fnr(t))
    ctx = f"200 {which} scores 1e-12 apart, {easy} easy samples per class, config={sc}/{ec}"
    require(abs(fpr - e) <= 1.01 / Nn and abs(fnr - e) <= 1.01 / P, "eer:fpr-crossing",
            f"{ctx}: t={t!r} eer={e!r} FPR(t)={fpr!r} (off by {abs(fpr - e) * Nn:.2f} samples) FNR(t)={fnr!r} "
            f"(off by {abs(fnr - e) * P:.2f} samples)")
    return dict(nontrivial=0 < e < 1, labels=["packed-easy"])


# ---------------------------------------------------------------------- zero clause
@st.composite
def _any_scores(draw):
    s = draw(gen.score_sets(min_pos=1, min_neg=1, max_size=8,
                            modes=("grid", "grid", "dyadic", "int", "distinct", "float", "ulp", "ulp"),
                            arrangements=("mixed", "separated", "separated", "inverted", "touch",
                                          "touch", "touch_inv", "touch_inv", "shared")))
    return dict(s=s)


_NARROW = {"uint8": (0, 255), "int8": (-128, 127), "int16": (-32768, 32767), "uint16": (0, 65535),
           "float16": (-60000, 60000)}


@st.composite
def _narrow_scores(draw):
    """Quantised scores stored in a narrow dtype, values up to the top of its range."""
    dtype = draw(st.sampled_from(sorted(_NARROW)))
    lo, hi = _NARROW[dtype]
    n, m = draw(st.integers(1, 6)), draw(st.integers(1, 6))
    span = hi - lo
    region = draw(st.sampled_from(["top", "top", "bottom", "anywhere"]))
    a, b = {"top": (hi - span // 3, hi), "bottom": (lo, lo + span // 3), "anywhere": (lo, hi)}[region]
    step = 32 if dtype == "float16" else 1  # exactly representable in float16
    vals = [v - v % step for v in draw(st.lists(st.integers(a, b), min_size=n + m, max_size=n + m))]
    arr = draw(st.sampled_from(["mixed", "separated", "separated", "inverted", "inverted"]))
    pos, neg = gen.arrange(draw, vals, n, m, arr)
    return dict(s=dict(pos=list(pos), neg=list(neg), ep=draw(st.sampled_from([0, 0, 3])),
                       en=draw(st.sampled_from([0, 0, 2])), mode="int", arr=arr, np_dtype=dtype))


@st.composite
def _longdouble_scores(draw):
    """Extended-precision scores whose neighbours differ only in the bits beyond float64."""
    n, m = draw(st.integers(1, 5)), draw(st.integers(1, 5))
    ks = draw(st.lists(st.integers(-40, 40), min_size=n + m, max_size=n + m,
                       unique=draw(st.booleans())))
    arr = draw(st.sampled_from(["mixed", "separated", "separated", "inverted", "inverted"]))
    pos, neg = gen.arrange(draw, ks, n, m, arr)
    return dict(s=dict(pos=list(pos), neg=list(neg), ep=draw(st.sampled_from([0, 0, 3])),
                       en=draw(st.sampled_from([0, 0, 2])), mode="int", arr=arr, np_dtype="longdouble",
                       base=draw(st.sampled_from([1.0, 0.75, -3.0, 100.0, 0.001]))))


def _arrays(s):
    dt = s.get("np_dtype") or (int if s["mode"] == "int" else float)
    if dt == "longdouble":
        base = np.longdouble(s["base"])
        step = np.spacing(base)  # one unit in the last place of the extended format
        return (base + np.asarray(s["pos"], dtype=np.longdouble) * step,
                base + np.asarray(s["neg"], dtype=np.longdouble) * step)
    return np.asarray(s["pos"], dtype=dt), np.asarray(s["neg"], dtype=dt)


def check_zero(case):
    s = case["s"]
    zero = False
    labels = [f"arr:{s['arr']}"] + ([f"dtype:{s['np_dtype']}"] if s.get("np_dtype") else [])
    from score_analysis import Scores

    for sc, ec in CONFIGS:
        p_arr, n_arr = _arrays(s)
        obj = Scores(p_arr, n_arr,
                     nb_easy_pos=s["ep"], nb_easy_neg=s["en"], score_class=sc, equal_class=ec)
        t, e = obj.eer()
        require(0.0 <= float(e) <= 1.0, "eer:range", f"config={sc}/{ec} eer={e!r}")
        if float(e) == 0.0:
            zero = True
            fpr, fnr = float(obj.fpr(t)), float(obj.fnr(t))
            require(fpr == 0.0 and fnr == 0.0, "eer:zero-with-errors",
                    lambda: f"config={sc}/{ec} pos={s['pos']} neg={s['neg']}: eer()=({t!r}, 0.0) "
                            f"but FPR(t)={fpr!r}, FNR(t)={fnr!r}")
    if zero:
        labels.append("eer=0")
    lo_p, hi_p = min(s["pos"]), max(s["pos"])
    lo_n, hi_n = min(s["neg"]), max(s["neg"])
    if lo_p == hi_n or hi_p == lo_n:
        labels.append("boundary-tie")
    return dict(nontrivial=zero, labels=labels)


PROP = Prop(
    id="C06",
    rule=("Crossing clause: Hypothesis, tie-free score sets (distinct integers mapped by a*k+b, "
          "a in {1e-3..1000}, so no value repeats within or across classes), sizes 1-12 (quick) per "
          "class, arrangements interleaved / separated / inverted / one pair exchanged, easy counts "
          "0..200, all 4 configs per case; oracle: FPR(t), FNR(t) by the same object within one "
          "sample (+1e-6) of e, e<=min hard fraction, equivariance under a2*s+b2 and under negation "
          "with flipped score_class (1e-8 on e, 1e-6*range on t). Zero clause: any scores incl. ties "
          "within/across classes and boundary ties (pos.min == neg.max), oracle: e == 0 implies "
          "FPR(t) == FNR(t) == 0. Non-trivial = 0<e<1 or easy samples present (crossing); e == 0 "
          "(zero clause)."),
    clauses=[
        Clause("crossing", check_crossing, strategy=lambda tier: _tiefree(12 if tier == "quick" else 40), quick=100, thorough=2000,
               quick_shards=6, min_nontrivial=100, doc="defining relation, cap, equivariance"),
        Clause("inverted_large", check_inverted, kind="enum", cases=_inverted_cases, quick_shards=4, shards=8,
               min_nontrivial=10, doc="~1000 inverted scores per class, close hard-sample fractions"),
        Clause("packed_large", check_packed, kind="enum", cases=_packed_cases, quick_shards=8, shards=16,
               min_nontrivial=4, doc="2000-4000 scores 1e-12 apart inside a gap of 2e5-6e5 scores of the other class"),
        Clause("packed_edge", check_packed_edge, kind="enum", cases=_packed_edge_cases, quick_shards=8, shards=16,
               min_nontrivial=8, doc="curves cross 20-25 samples from the end of a run of 3000 scores 2^-40 apart"),
        Clause("barely_inverted", check_barely, kind="enum", cases=_barely_cases, quick_shards=4, shards=8,
               min_nontrivial=16, doc="separated classes with one pair exchanged by 1e-13..1e-10"),
        Clause("subsample", check_subsample, strategy=_subsample_cases(), quick=60, thorough=1500, quick_shards=2,
               min_nontrivial=20, doc="proportion subsamples made by the library as subjects"),
        Clause("packed_easy", check_packed_easy, kind="enum", cases=_packed_easy_cases, quick_shards=4, shards=8,
               min_nontrivial=4, doc="200 scores 1e-12 apart under 1e9-1e13 easy samples per class"),
        Clause("zero", check_zero, strategy=st.one_of(_any_scores(), _any_scores(), _any_scores(), _narrow_scores(), _narrow_scores(), _longdouble_scores()), quick=250, thorough=4800, quick_shards=2,
               min_nontrivial=50, doc="reported EER 0 comes with an error-free threshold"),
    ],
    assumptions=["'moderate magnitude': |score| <= ~2e6; tie-free inputs have separation >= 1e-3"],
)

RULE_EXTRA = ('1e5-5e6 easy samples next to 1-12 scored ones with a slack of 1% of a sample; clause inverted_large; score scales 1e-9..1e6; uint8/int8/int16/uint16/float16 scores near the top of their range and long-double scores one extended ulp apart (zero clause); GroupScores over the same unsorted data must give the same eer(). Conventions re-assigned as plain strings after construction; clauses packed_edge (crossing 20-25 samples from the end of a run of 3000 scores 2^-40 apart) and packed_easy (200 packed scores under 1e9-1e13 easy samples per class); classes of 800000 with hard fractions 7.5e-6 apart.')
