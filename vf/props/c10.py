"""C10 - queries are vectorised elementwise, shape-preserving and side-effect free."""

from __future__ import annotations

import copy
import math

import numpy as np
from hypothesis import strategies as st
from hypothesis.stateful import RuleBasedStateMachine, initialize, precondition, rule

from .. import gen
from ..harness import Clause, Prop, canon, require
from ..oracles import ALIASES, CONFIGS, METRICS, relevant_scores

METHODS = ("linear", "lower", "higher")
RATE_NAMES = METRICS + [ALIASES[m] for m in METRICS]
THR_NAMES = RATE_NAMES
ALIAS_OF = {v: k for k, v in ALIASES.items()}


def _dt(mode):
    return int if mode == "int" else float


LAYOUTS = ["C", "C", "F", "strided"]


def as_layout(arr, layout):
    """Same values and shape in a different memory layout (Fortran order / non-contiguous view)."""
    arr = np.asarray(arr)
    if layout == "F" and arr.ndim >= 2:
        return np.asfortranarray(arr)
    if layout == "strided" and arr.ndim >= 1:
        return np.repeat(arr, 2, axis=-1)[..., ::2]
    return arr


def _same(a, b):
    a, b = np.asarray(a), np.asarray(b)
    return a.shape == b.shape and np.array_equal(a, b, equal_nan=True)


# ------------------------------------------------------------------ clause: vectorised
@st.composite
def _vec_cases(draw):
    s = draw(gen.score_sets(max_size=8, modes=("grid", "dyadic", "int", "float", "distinct"), mag=1e6))
    thr = draw(gen.shaped_thresholds(s["pos"] + s["neg"], mag=1e6))
    shape = draw(st.sampled_from(gen.SHAPES))
    pops = [len(s["pos"]) + s["ep"], len(s["neg"]) + s["en"],
            len(s["pos"]) + len(s["neg"]) + s["ep"] + s["en"]]
    n = gen.shape_size(shape)
    tg = draw(st.lists(gen.target_values(pops), min_size=n, max_size=n))
    return dict(s=s, thr=thr, tg=dict(shape=list(shape), flat=tg), cfg=draw(gen.CONFIG),
                scalar_kind=draw(st.sampled_from(["py", "np", "0d", "int"])),
                layout=draw(st.sampled_from(LAYOUTS)),
                thr_dtype=draw(st.sampled_from([None, None, "float32", "float16"])),
                readonly=draw(st.booleans()), subclass=draw(st.sampled_from([False, False, False, True])))


def _scalar(x, kind):
    if kind == "py":
        return float(x)
    if kind == "np":
        return np.float64(x)
    if kind == "0d":
        return np.asarray(float(x))
    return float(x)


def check_vectorised(case):
    from score_analysis import Scores

    s = case["s"]
    sc, ec = case["cfg"]
    pos = np.asarray(s["pos"], dtype=_dt(s["mode"]))
    neg = np.asarray(s["neg"], dtype=_dt(s["mode"]))
    cls = Scores
    if case.get("subclass"):
        # a user subclass that reports its rates in percent: every alias must follow the override
        class PercentScores(Scores):
            pass

        for nm in METRICS:
            setattr(PercentScores, nm, (lambda base: lambda self, threshold: 100.0 * base(self, threshold))(getattr(Scores, nm)))
        cls = PercentScores
    o = cls(pos, neg, nb_easy_pos=s["ep"], nb_easy_neg=s["en"], score_class=sc, equal_class=ec)
    X = tuple(case["thr"]["shape"])
    thr = gen.np_array(case["thr"]["flat"], X)
    if case.get("thr_dtype"):
        # thresholds held in a narrower float type than the scores; the scalar calls below get the
        # value each element holds
        with np.errstate(over="ignore"):
            thr = thr.astype(case["thr_dtype"])
        case = dict(case, thr=dict(case["thr"], flat=[float(x) for x in thr.reshape(-1).tolist()]))
    thr = as_layout(thr, case.get("layout", "C"))
    if case.get("readonly"):
        thr = thr.copy() if not thr.flags.owndata and thr.base is None else thr
        thr.setflags(write=False)  # arrays the caller cannot (or must not) have written to
        pos.setflags(write=False)
        neg.setflags(write=False)
    thr0 = thr.copy()
    kind = case["scalar_kind"]
    # confusion matrices
    cm = o.cm(thr).matrix
    require(cm.shape == X + (2, 2), "vec:cm-shape", f"{cm.shape} for {X}")
    cmf = cm.reshape((-1, 2, 2))
    for i, t in enumerate(case["thr"]["flat"]):
        one = o.cm(_scalar(t, kind)).matrix
        require(one.shape == (2, 2) and np.array_equal(one, cmf[i]), "vec:cm-elementwise",
                lambda: f"t={t!r}: array call {cmf[i].tolist()} scalar call {one.tolist()}")
    # rates and aliases
    for m in METRICS:
        r = np.asarray(getattr(o, m)(thr))
        require(r.shape == X, "vec:rate-shape", f"{m}: {r.shape} for {X}")
        ra = np.asarray(getattr(o, ALIASES[m])(thr))
        require(_same(r, ra), "vec:alias", f"{m} vs {ALIASES[m]}")
        rf = r.reshape(-1)
        for i, t in enumerate(case["thr"]["flat"]):
            v = getattr(o, m)(_scalar(t, kind))
            require(np.isscalar(v), "vec:rate-not-scalar", f"{m}({t!r}) -> {type(v).__name__}")
            require(_same(v, rf[i]), "vec:rate-elementwise", f"{m} t={t!r}: {rf[i]!r} vs {v!r}")
    require(np.array_equal(thr, thr0, equal_nan=True), "vec:mutated-threshold", "")
    # threshold setting
    Y = tuple(case["tg"]["shape"])
    tg = as_layout(gen.np_array(case["tg"]["flat"], Y), case.get("layout", "C"))
    if case.get("readonly"):
        tg.setflags(write=False)
    tg0 = tg.copy()
    for m in METRICS:
        if not relevant_scores(m, s["pos"], s["neg"]):
            continue
        for meth in METHODS:
            t = np.asarray(getattr(o, "threshold_at_" + m)(tg, method=meth))
            require(t.shape == Y, "vec:thr-shape", f"threshold_at_{m}: {t.shape} for {Y}")
            ta = np.asarray(getattr(o, "threshold_at_" + ALIASES[m])(tg, method=meth))
            require(_same(t, ta), "vec:alias", f"threshold_at_{m} vs threshold_at_{ALIASES[m]}")
            tf = t.reshape(-1)
            for i, r in enumerate(case["tg"]["flat"]):
                v = getattr(o, "threshold_at_" + m)(_scalar(r, kind), method=meth)
                require(np.isscalar(v), "vec:thr-not-scalar",
                        f"threshold_at_{m}({r!r}) -> {type(v).__name__} {np.shape(v)}")
                require(_same(v, tf[i]), "vec:thr-elementwise",
                        lambda: f"threshold_at_{m}({r!r},{meth}): array {tf[i]!r} scalar {v!r}")
    require(np.array_equal(tg, tg0), "vec:mutated-target", "")
    # general threshold search: one entry per target, each equal to the call on that target alone
    allv = sorted(set(float(x) for x in list(s["pos"]) + list(s["neg"])))
    if len(allv) >= 2 and len(Y) == 1 and Y[0] > 0:
        for mname in ("fnr", "fpr", "topr"):
            for pts in (None, 5):
                res = o.threshold_at_metric(tg, mname, pts)
                require(isinstance(res, list) and len(res) == Y[0], "vec:tam-entries",
                        f"threshold_at_metric({tg.tolist()}, {mname!r}, {pts}): {type(res).__name__}")
                for i, r in enumerate(case["tg"]["flat"]):
                    one = o.threshold_at_metric(float(r), mname, pts)
                    require(np.array_equal(np.ravel(res[i]), np.ravel(one)), "vec:tam-elementwise",
                            lambda: f"threshold_at_metric({tg.tolist()}, {mname!r}, {pts})[{i}] = "
                                    f"{np.ravel(res[i]).tolist()} but the call on {r!r} alone gives "
                                    f"{np.ravel(one).tolist()}")
    require(np.array_equal(o.pos, np.sort(pos)) and np.array_equal(o.neg, np.sort(neg)),
            "vec:mutated-object", "")
    labels = [f"rank:{len(X)}"] + (["size0-axis"] if 0 in X or 0 in Y else [])
    if case.get("thr_dtype"):
        labels.append(f"thresholds:{case['thr_dtype']}")
    return dict(nontrivial=len(X) >= 2 or 0 in X or len(Y) >= 2 or 0 in Y, labels=labels)


# ------------------------------------------------------------------ clause: long vectors
def _long_cases(tier):
    sizes = [1024, 1025, 1500, 2500, 5000] if tier == "quick" else [1023, 1024, 1025, 1500, 2048, 2500, 4097, 5000, 20000]
    for T in sizes:
        for k, cfg in enumerate((["pos", "pos"], ["neg", "pos"], ["pos", "neg"])):
            yield dict(T=T, cfg=cfg, k=k)


def check_long(case):
    """Target / threshold vectors with thousands of entries: element i still equals the call on
    element i alone."""
    from score_analysis import Scores

    T, (sc, ec), k = case["T"], case["cfg"], case["k"]
    pos = [0.25 * ((7 * i + k) % 23) for i in range(11)]
    neg = [0.25 * ((5 * i + 2 * k) % 19) - 1.0 for i in range(9)]
    o = Scores(pos, neg, nb_easy_pos=k, nb_easy_neg=2 * k, score_class=sc, equal_class=ec)
    tg = np.asarray([((37 * i + 11 * k) % 1009) / 1008 for i in range(T)])
    thr = np.asarray([(((53 * i + k) % 997) / 997) * 7.0 - 1.5 for i in range(T)])
    cm = o.cm(thr).matrix
    require(cm.shape == (T, 2, 2), "vec:cm-shape", str(cm.shape))
    fnr = np.asarray(o.fnr(thr))
    t_fpr = np.asarray(o.threshold_at_fpr(tg))
    for i in list(range(0, T, 7)) + [T - 1]:
        require(np.array_equal(cm[i], o.cm(float(thr[i])).matrix), "vec:cm-elementwise", f"T={T} i={i}")
        require(fnr[i] == o.fnr(float(thr[i])), "vec:rate-elementwise", f"T={T} i={i}")
        require(t_fpr[i] == o.threshold_at_fpr(float(tg[i])), "vec:thr-elementwise", f"T={T} i={i}")
    for mname, metric in (("fpr", "fpr"), ("frr", "frr"),
                          ("callable", lambda s_, t_: np.abs(s_.fnr(t_) - s_.fpr(t_)))):
        for pts in (None, 7):
            res = o.threshold_at_metric(tg, metric, pts)
            require(isinstance(res, list) and len(res) == T, "vec:tam-entries",
                    f"threshold_at_metric with {T} targets: {type(res).__name__} of length "
                    f"{len(res) if hasattr(res, '__len__') else '?'}")
            for i in range(T):
                one = o.threshold_at_metric(float(tg[i]), metric, pts)
                require(np.array_equal(np.ravel(res[i]), np.ravel(one)), "vec:tam-elementwise",
                        lambda: f"threshold_at_metric(<{T} targets>, {mname}, {pts})[{i}] = "
                                f"{np.ravel(res[i]).tolist()} but the call on {tg[i]!r} alone gives "
                                f"{np.ravel(one).tolist()}")
    return dict(nontrivial=True, labels=[f"T:{T}"])


# ------------------------------------------------------------------ clause: big n-d arrays
def _bignd_cases(tier):
    shapes = [(101, 100), (22, 22, 22), (3, 4000)] if tier == "quick" else [
        (101, 100), (100, 101), (22, 22, 22), (3, 4000), (4000, 3), (12001, 1), (1, 12001), (2, 3, 11000),
        (257, 257), (41, 40, 41)]
    for shp in shapes:
        for k, cfg in enumerate((["pos", "pos"], ["neg", "pos"], ["pos", "neg"], ["neg", "neg"])):
            if tier == "quick" and k in (1, 2) and shp != (101, 100):
                continue
            yield dict(shape=list(shp), cfg=cfg, k=k)


def check_bignd(case):
    """2-d / 3-d threshold and target arrays with more than 1e4 entries (round 10, c10-s: a code path
    that only large arrays take, correct for 1-d only): every element equals the scalar call, the whole
    result equals the call on the flattened array."""
    from score_analysis import Scores

    shp, (sc, ec), k = tuple(case["shape"]), case["cfg"], case["k"]
    n = int(np.prod(shp))
    pos = [0.25 * ((7 * i + k) % 23) for i in range(13)]
    neg = [0.25 * ((5 * i + 2 * k) % 19) - 1.0 for i in range(10)]
    o = Scores(pos, neg, nb_easy_pos=k, nb_easy_neg=2 * k, score_class=sc, equal_class=ec)
    thr = np.asarray([(((53 * i + k) % 997) / 997) * 8.0 - 1.75 for i in range(n)]).reshape(shp)
    tg = np.asarray([((37 * i + 11 * k) % 1009) / 1008 for i in range(n)]).reshape(shp)
    thr0, tg0 = thr.copy(), tg.copy()
    idx = [np.unravel_index((i * 7919 + k) % n, shp) for i in range(300)] + [tuple(0 for _ in shp), tuple(d - 1 for d in shp)]
    cm = o.cm(thr).matrix
    require(cm.shape == shp + (2, 2), "vec:cm-shape", f"{cm.shape} for thresholds of shape {shp}")
    require(np.array_equal(cm.reshape(n, 2, 2), o.cm(thr.ravel()).matrix), "vec:cm-elementwise",
            lambda: f"cm(<thresholds of shape {shp}>) differs from cm(<the same thresholds flattened>) reshaped")
    for ix in idx:
        require(np.array_equal(cm[ix], o.cm(float(thr[ix])).matrix), "vec:cm-elementwise",
                lambda: f"cm(<thresholds of shape {shp}>)[{ix}] = {cm[ix].tolist()} but cm({float(thr[ix])!r}) = "
                        f"{o.cm(float(thr[ix])).matrix.tolist()} config={sc}/{ec}")
    for name in ("tpr", "fnr", "tnr", "fpr", "topr", "tonr", "far", "frr"):
        r = np.asarray(getattr(o, name)(thr))
        require(r.shape == shp, "vec:rate-shape", f"{name}: {r.shape} for thresholds of shape {shp}")
        for ix in idx[::3]:
            one = getattr(o, name)(float(thr[ix]))
            require(_same(r[ix], one), "vec:rate-elementwise",
                    lambda: f"{name}(<thresholds of shape {shp}>)[{ix}] = {r[ix]!r} but {name}({float(thr[ix])!r}) = {one!r}")
    for name in ("threshold_at_fpr", "threshold_at_fnr", "threshold_at_tpr", "threshold_at_tnr"):
        r = np.asarray(getattr(o, name)(tg))
        require(r.shape == shp, "vec:thr-shape", f"{name}: {r.shape} for targets of shape {shp}")
        for ix in idx[::3]:
            one = getattr(o, name)(float(tg[ix]))
            require(_same(r[ix], one), "vec:thr-elementwise",
                    lambda: f"{name}(<targets of shape {shp}>)[{ix}] = {r[ix]!r} but {name}({float(tg[ix])!r}) = {one!r}")
    require(np.array_equal(thr, thr0) and np.array_equal(tg, tg0), "vec:mutated-threshold", f"argument array of shape {shp} changed")
    return dict(nontrivial=True, labels=[f"ndim:{len(shp)}", f"n:{n}"])


# ------------------------------------------------------------------ clause: pointwise shape
@st.composite
def _pw_cases(draw):
    sshape = draw(st.sampled_from(gen.SHAPES))
    tshape = draw(st.sampled_from(gen.SHAPES))
    n, k = gen.shape_size(sshape), gen.shape_size(tshape)
    vals = [x / 2 for x in draw(st.lists(st.integers(-4, 4), min_size=n, max_size=n))]
    labs = draw(st.lists(st.integers(0, 1), min_size=n, max_size=n))
    thr = [x / 4 for x in draw(st.lists(st.integers(-9, 9), min_size=k, max_size=k))]
    sdt = draw(st.sampled_from([None, None, "float32", "float16"]))
    if sdt and draw(st.booleans()):
        tshape, k = (), 1  # one threshold, given as a plain number below
    if sdt:
        # single / half precision scores next to thresholds written as decimal literals: a score
        # float32(0.3) is not 0.3, and a Python-number threshold must not be rounded onto it
        vals = [float(np.dtype(sdt).type(x / 10)) for x in draw(st.lists(st.integers(-9, 9), min_size=n, max_size=n))]
        thr = [x / 10 for x in draw(st.lists(st.integers(-9, 9), min_size=k, max_size=k))]
        if n and k and draw(st.booleans()):
            vals[draw(st.integers(0, n - 1))] = float(np.dtype(sdt).type(thr[0]))  # the score a rounded threshold would hit
    return dict(sshape=list(sshape), tshape=list(tshape), scores=vals, labels=labs, thr=thr, score_dtype=sdt,
                thr_scalar=draw(st.sampled_from(["array", "py", "py", "np"])),
                cfg=draw(gen.CONFIG), layouts=[draw(st.sampled_from(LAYOUTS)) for _ in range(3)])


def check_pointwise_shape(case):
    from score_analysis import pointwise_cm

    from ..oracles import predicted_positive

    ss, ts = tuple(case["sshape"]), tuple(case["tshape"])
    sc, ec = case["cfg"]
    lay = case.get("layouts", ["C", "C", "C"])
    scores = as_layout(np.asarray(case["scores"], dtype=case.get("score_dtype") or float).reshape(ss), lay[0])
    labels = as_layout(np.asarray(case["labels"], dtype=int).reshape(ss), lay[1])
    thr = as_layout(np.asarray(case["thr"], dtype=float).reshape(ts), lay[2])
    s0, l0, t0 = scores.copy(), labels.copy(), thr.copy()
    thr_arg = thr
    if ts == () and case.get("thr_scalar", "array") != "array":  # a single threshold as a plain number
        thr_arg = float(case["thr"][0]) if case["thr_scalar"] == "py" else np.float64(case["thr"][0])
    pw = pointwise_cm(labels, scores, thr_arg, score_class=sc, equal_class=ec)
    require(pw.shape == ss + ts + (2, 2), "vec:pointwise-shape",
            f"{pw.shape} for scores {ss} thresholds {ts}")
    pf = pw.reshape((len(case["scores"]), len(case["thr"]), 2, 2))
    for i, (x, lab) in enumerate(zip(case["scores"], case["labels"])):
        for j, t in enumerate(case["thr"]):
            cell = (0 if lab == 1 else 1, 0 if predicted_positive(x, t, sc, ec) else 1)
            exp = np.zeros((2, 2), dtype=bool)
            exp[cell] = True
            require(np.array_equal(pf[i, j], exp), "vec:pointwise-elementwise",
                    f"score {x!r} label {lab} t={t!r} {sc}/{ec}: {pf[i, j].tolist()}")
    require(np.array_equal(scores, s0) and np.array_equal(labels, l0) and np.array_equal(thr, t0),
            "vec:mutated-input", "pointwise_cm")
    labels_ = ["size0-axis"] if 0 in ss + ts else []
    if case.get("score_dtype"):
        labels_.append(f"scores:{case['score_dtype']}")
    if any(x != "C" for x in lay) and (len(ss) >= 2 or len(ts) >= 2):
        labels_.append("non-C-layout")
    return dict(nontrivial=len(ss) + len(ts) >= 2 or 0 in ss + ts, labels=labels_)


# ------------------------------------------------------------------ clause: history (machine)
def _build(init, arrays=None):
    """Returns (object, caller arrays)."""
    from score_analysis import GroupScores, Scores

    if arrays is None:
        arrays = _make_arrays(init)
    kw = dict(score_class=init["sc"], equal_class=init["ec"], is_sorted=init["sorted"])
    if init.get("groups"):
        o = GroupScores(arrays["pos"], arrays["neg"], pos_groups=arrays["pg"], neg_groups=arrays["ng"], **kw)
    else:
        o = Scores(arrays["pos"], arrays["neg"], nb_easy_pos=init["ep"], nb_easy_neg=init["en"], **kw)
    return o, arrays


def _make_arrays(init):
    dt = _dt(init["mode"])
    if True:
        pos = np.asarray(init["pos"], dtype=dt)
        neg = np.asarray(init["neg"], dtype=dt)
        if init["sorted"]:
            if init.get("groups"):
                ip, ineg = np.argsort(pos, kind="stable"), np.argsort(neg, kind="stable")
                pg = np.asarray(init["groups"]["pg"], dtype=str)[ip]
                ng = np.asarray(init["groups"]["ng"], dtype=str)[ineg]
                pos, neg = pos[ip], neg[ineg]
            else:
                pos, neg = np.sort(pos), np.sort(neg)
                pg = ng = None
        elif init.get("groups"):
            pg = np.asarray(init["groups"]["pg"], dtype=str)
            ng = np.asarray(init["groups"]["ng"], dtype=str)
        else:
            pg = ng = None
    return dict(pos=pos, neg=neg, pg=pg, ng=ng)


def _snapshot(o):
    d = dict(pos=o.pos.copy(), neg=o.neg.copy(), ep=o.nb_easy_pos, en=o.nb_easy_neg,
             sc=o.score_class.value, ec=o.equal_class.value)
    if hasattr(o, "pos_groups"):
        d.update(pg=o.pos_groups.copy(), ng=o.neg_groups.copy(), groups=o.groups.copy())
    return d


def _unchanged(o, snap):
    ok = (o.pos.dtype == snap["pos"].dtype and np.array_equal(o.pos, snap["pos"])
          and o.neg.dtype == snap["neg"].dtype and np.array_equal(o.neg, snap["neg"])
          and o.nb_easy_pos == snap["ep"] and o.nb_easy_neg == snap["en"]
          and o.score_class.value == snap["sc"] and o.equal_class.value == snap["ec"])
    if ok and "pg" in snap:
        ok = (np.array_equal(o.pos_groups, snap["pg"]) and np.array_equal(o.neg_groups, snap["ng"])
              and np.array_equal(o.groups, snap["groups"]))
    return ok


def _run_step(o, step, init):
    """Executes one query; returns (result as list of arrays, list of (caller array, copy))."""
    from score_analysis import BootstrapConfig, roc

    op = step["op"]
    args = []

    def arr(d):
        a = gen.np_array(d["flat"], tuple(d["shape"]))
        args.append((a, a.copy()))
        return a

    if op == "cm":
        res = [o.cm(arr(step["thr"])).matrix]
    elif op == "rate":
        res = [getattr(o, step["m"])(arr(step["thr"]))]
    elif op == "rate_buf":
        # the caller re-uses one array object, overwriting its contents in place between queries
        buf = init.setdefault("_buffers", {}).setdefault(id(o), np.zeros(3))
        buf[...] = step["vals"]
        args.append((buf, buf.copy()))
        res = [getattr(o, step["m"])(buf)]
    elif op == "thr":
        res = [getattr(o, "threshold_at_" + step["m"])(arr(step["tg"]), method=step["method"])]
    elif op == "eer":
        res = list(o.eer())
    elif op == "auc":
        res = [o.auc(step["lims"][0], step["lims"][1], x_axis=step["x"], y_axis=step["y"])]
    elif op == "failing_call":
        # a call that fails (a metric name the object does not have, an unknown method): the
        # exception is the caller's business, the state of the object is not
        try:
            if step["kind"] == "auc-axis":
                o.auc(y_axis="ppv")
            elif step["kind"] == "thr-method":
                o.threshold_at_fpr(0.5, method="nearest")
            else:
                o.threshold_at_metric(0.5, "no_such_metric")
        except Exception:  # noqa
            pass
        res = []
    elif op == "tam":
        pts = step["points"]
        r = o.threshold_at_metric(arr(step["tg"]), step["metric"], pts)
        res = list(r) if isinstance(r, list) else [r]
    elif op == "swap":
        sw = o.swap()
        res = [sw.cm(arr(step["thr"])).matrix, sw.pos, sw.neg]
    elif op == "roc":
        c = roc(o, nb_points=step["nb_points"], x_axis=step["x"])
        res = [c.thresholds, c.fnr, c.fpr]
    elif op == "bootstrap_sample":
        np.random.seed(step["seed"])
        smp = o.bootstrap_sample(BootstrapConfig(sampling_method=step["method"],
                                                 stratified_sampling=step["strat"]))
        res = [smp.pos, smp.neg]
    elif op == "bootstrap_ci":
        np.random.seed(step["seed"])
        cfg = BootstrapConfig(nb_samples=step["nb"], bootstrap_method="quantile",
                              sampling_method="replacement")
        res = [o.bootstrap_ci("fnr", alpha=0.2, config=cfg, threshold=arr(step["thr"]))]
    elif op == "group_cm":
        res = [o.group_cm(arr(step["thr"])).matrix]
    elif op == "group_rate":
        res = [getattr(o, "group_" + step["m"])(arr(step["thr"]))]
    elif op == "getitem":
        g = o.groups[step["g"] % len(o.groups)]
        sub = o[g]
        res = [sub.pos, sub.neg, sub.cm(arr(step["thr"])).matrix]
    else:
        raise ValueError(op)
    _run_step.raw = res  # the objects as handed out (the history check keeps them)
    return [np.array(r, copy=True) for r in res], args


def _applicable(step, init):
    n, m = len(init["pos"]), len(init["neg"])
    op = step["op"]
    if op in ("eer", "auc", "roc", "bootstrap_ci", "failing_call"):
        return n > 0 and m > 0
    if op == "thr":
        base = ALIAS_OF.get(step["m"], step["m"])
        return bool(relevant_scores(base, init["pos"], init["neg"]))
    if op == "tam":
        return len(set(map(float, init["pos"] + init["neg"]))) >= 2 and n > 0 and m > 0
    if op in ("group_cm", "group_rate", "getitem"):
        return bool(init.get("groups")) and (n + m) > 0
    if op == "bootstrap_sample":
        if step["strat"] == "by_group" and step["method"] == "single_pass" and init.get("groups"):
            # single-pass sampling needs every sampled (group, class) stratum non-empty (C12)
            pg, ng = set(init["groups"]["pg"]), set(init["groups"]["ng"])
            if pg != ng:
                return False
        return n > 0 and m > 0
    return True


def check_history(case):
    init, steps = dict(case["init"]), case["steps"]
    init.pop("_buffers", None)
    proto = _make_arrays(init)
    caller = {k: (v.copy() if v is not None else None) for k, v in proto.items()}
    arrays = {k: (v.copy() if v is not None else None) for k, v in caller.items()}
    o, arrays = _build(init, arrays)
    snap = _snapshot(o)
    memo = {}
    handed = []
    executed = 0
    repeated_after_other = False
    last_key = None
    for idx, step in enumerate(steps):
        if not _applicable(step, init):
            continue
        key = canon(step)
        res, args = _run_step(o, step, init)
        executed += 1
        ctx = f"step {idx} {step}"
        # results handed out by earlier steps are the caller's: later queries must not change them
        for j, (raw_j, copy_j, step_j) in enumerate(handed):
            require(_same(raw_j, copy_j), "hist:earlier-result-changed",
                    lambda: f"{ctx}: a result of {step_j} was {np.asarray(copy_j).tolist()} when it was returned and "
                            f"is {np.asarray(raw_j).tolist()} now")
        handed.extend((r, c, step) for r, c in zip(_run_step.raw, res) if isinstance(r, np.ndarray))
        handed[:] = handed[-12:]
        require(_unchanged(o, snap), "hist:object-mutated", ctx)
        for k, v in arrays.items():
            if v is not None:
                require(v.dtype == caller[k].dtype and np.array_equal(v, caller[k]),
                        "hist:caller-array-mutated", f"{ctx}: constructor input {k}")
        for a, c in args:
            require(np.array_equal(a, c, equal_nan=True), "hist:argument-mutated", ctx)
        # fresh clone built from untouched copies
        fresh, _ = _build(init, {k: (v.copy() if v is not None else None) for k, v in caller.items()})
        res2, _ = _run_step(fresh, step, init)
        require(len(res) == len(res2) and all(_same(a, b) for a, b in zip(res, res2)),
                "hist:differs-from-fresh-clone",
                lambda: f"{ctx}: {[r.tolist() for r in res]} vs fresh {[r.tolist() for r in res2]}")
        if key in memo:
            prev = memo[key]
            require(len(res) == len(prev) and all(_same(a, b) for a, b in zip(res, prev)),
                    "hist:repeat-differs",
                    lambda: f"{ctx}: first {[r.tolist() for r in prev]} now {[r.tolist() for r in res]}")
            if last_key != key:
                repeated_after_other = True
        else:
            memo[key] = res
        last_key = key
    labels = ["group" if init.get("groups") else "plain", "is_sorted" if init["sorted"] else "unsorted"]
    return dict(nontrivial=executed >= 5 and repeated_after_other, labels=labels)


def _small_thr(vals):
    """Thresholds from a small pool (so that queries recur): scores, +-ulp, a few others."""
    pool = sorted(set([float(x) for x in vals] + [0.0, 0.25, -1.0, 1.5]))
    pool += [math.nextafter(pool[0], -math.inf), math.nextafter(pool[-1], math.inf)]
    shape = st.sampled_from([(), (), (1,), (2,), (2, 2), (0,), (1, 0)])

    @st.composite
    def one(draw):
        sh = draw(shape)
        n = gen.shape_size(sh)
        return dict(shape=list(sh), flat=draw(st.lists(st.sampled_from(pool), min_size=n, max_size=n)))

    return one()


def _small_targets():
    pool = [0.0, 0.25, 0.5, 0.75, 1.0, 1 / 3, -0.1, 1.2]
    shape = st.sampled_from([(), (), (1,), (3,), (2, 2), (0,)])

    @st.composite
    def one(draw):
        sh = draw(shape)
        n = gen.shape_size(sh)
        return dict(shape=list(sh), flat=draw(st.lists(st.sampled_from(pool), min_size=n, max_size=n)))

    return one()


@st.composite
def _inits(draw):
    s = draw(gen.score_sets(max_size=7, modes=("grid", "grid", "dyadic", "int", "distinct"), max_easy=20))
    sc, ec = draw(gen.CONFIG)
    grouped = draw(st.booleans()) and (len(s["pos"]) + len(s["neg"])) > 0
    init = dict(pos=s["pos"], neg=s["neg"], ep=s["ep"], en=s["en"], sc=sc, ec=ec, mode=s["mode"],
                sorted=draw(st.booleans()), groups=None)
    if grouped:
        g = st.sampled_from(["a", "b", "c"])
        init["groups"] = dict(pg=draw(st.lists(g, min_size=len(s["pos"]), max_size=len(s["pos"]))),
                              ng=draw(st.lists(g, min_size=len(s["neg"]), max_size=len(s["neg"]))))
        init["ep"] = init["en"] = 0
    return init


def make_machine(tier, on_history):
    class History(RuleBasedStateMachine):
        def __init__(self):
            super().__init__()
            self.init = None
            self.steps = []

        @initialize(init=_inits())
        def start(self, init):
            self.init = init
            self.vals = init["pos"] + init["neg"]

        @rule(data=st.data())
        def cm(self, data):
            self.steps.append(dict(op="cm", thr=data.draw(_small_thr(self.vals))))

        @rule(data=st.data(), m=st.sampled_from(RATE_NAMES))
        def rate(self, data, m):
            self.steps.append(dict(op="rate", m=m, thr=data.draw(_small_thr(self.vals))))

        @rule(data=st.data(), m=st.sampled_from(RATE_NAMES + ["cm"]))
        def rate_buf(self, data, m):
            pool = sorted(set(float(x) for x in self.vals)) + [0.0, 0.25, -1.0, 1.5]
            vals = data.draw(st.lists(st.sampled_from(pool), min_size=3, max_size=3))
            self.steps.append(dict(op="rate_buf", m="tpr" if m == "cm" else m, vals=vals))

        @rule(m=st.sampled_from(THR_NAMES), method=st.sampled_from(METHODS), tg=_small_targets())
        def thr(self, m, method, tg):
            self.steps.append(dict(op="thr", m=m, method=method, tg=tg))

        @rule(kind=st.sampled_from(["auc-axis", "thr-method", "tam-name"]))
        def failing_call(self, kind):
            self.steps.append(dict(op="failing_call", kind=kind))

        @rule()
        def eer(self):
            self.steps.append(dict(op="eer"))

        @rule(lims=st.sampled_from([[0.0, 1.0], [0.0, 0.5], [0.25, 0.75]]),
              axes=st.sampled_from([["fpr", "tpr"], ["fpr", "fnr"], ["tnr", "tpr"], ["tpr", "fpr"]]))
        def auc(self, lims, axes):
            self.steps.append(dict(op="auc", lims=lims, x=axes[0], y=axes[1]))

        @rule(tg=st.sampled_from([dict(shape=[], flat=[0.3]), dict(shape=[2], flat=[0.5, 0.1])]),
              metric=st.sampled_from(["fnr", "fpr", "topr"]), points=st.sampled_from([None, 5]))
        def tam(self, tg, metric, points):
            self.steps.append(dict(op="tam", tg=tg, metric=metric, points=points))

        @rule(data=st.data())
        def swap(self, data):
            self.steps.append(dict(op="swap", thr=data.draw(_small_thr(self.vals))))

        @rule(nb=st.sampled_from([None, 4, 7]), x=st.sampled_from(["fpr", "fnr", "tar"]))
        def roc(self, nb, x):
            self.steps.append(dict(op="roc", nb_points=nb, x=x))

        @rule(seed=st.integers(0, 3), method=st.sampled_from(["replacement", "single_pass", "dynamic"]),
              strat=st.sampled_from([None, "by_label", "by_group"]))
        def bootstrap_sample(self, seed, method, strat):
            self.steps.append(dict(op="bootstrap_sample", seed=seed, method=method, strat=strat))

        @rule(seed=st.integers(0, 2), nb=st.sampled_from([3, 6]), data=st.data())
        def bootstrap_ci(self, seed, nb, data):
            thr = data.draw(_small_thr(self.vals))
            if 0 in thr["shape"]:  # size-0 metric shapes are not claimed for bootstrap CIs
                thr = dict(shape=[], flat=[0.0])
            self.steps.append(dict(op="bootstrap_ci", seed=seed, nb=nb, thr=thr))

        @precondition(lambda self: self.init is not None and self.init.get("groups"))
        @rule(data=st.data())
        def group_cm(self, data):
            self.steps.append(dict(op="group_cm", thr=data.draw(_small_thr(self.vals))))

        @precondition(lambda self: self.init is not None and self.init.get("groups"))
        @rule(data=st.data(), m=st.sampled_from(RATE_NAMES))
        def group_rate(self, data, m):
            self.steps.append(dict(op="group_rate", m=m, thr=data.draw(_small_thr(self.vals))))

        @precondition(lambda self: self.init is not None and self.init.get("groups"))
        @rule(data=st.data(), g=st.integers(0, 2))
        def getitem(self, data, g):
            self.steps.append(dict(op="getitem", g=g, thr=data.draw(_small_thr(self.vals))))

        @precondition(lambda self: len(self.steps) > 0)
        @rule(i=st.integers(0, 1000))
        def repeat(self, i):
            self.steps.append(copy.deepcopy(self.steps[i % len(self.steps)]))

        def teardown(self):
            if self.init is not None:
                on_history(dict(init=self.init, steps=self.steps))

    return History


PROP = Prop(
    id="C10",
    rule=("Direct clauses (Hypothesis @given): threshold and target arrays of shape X in 0-d..3-d "
          "incl. size-0 and size-1 axes on generated Scores; cm has shape X+(2,2), rates/thresholds "
          "shape X, every element equals the scalar call (scalar given as Python float, np.float64 "
          "or 0-d array) which must return a plain scalar; aliases identical; pointwise_cm with "
          "independent score and threshold shapes has shape S+T+(2,2) and the right cell per "
          "element; caller arrays bit-identical afterwards. History clause (Hypothesis rule-based "
          "state machine, up to 30 steps, replayed by a plain interpreter): one Scores or "
          "GroupScores object (unsorted or is_sorted=True aliasing caller arrays); rules = cm, 12 "
          "rates, 12 threshold_at_* x 3 methods, eer, auc, threshold_at_metric, swap, roc, "
          "bootstrap_sample (random, 3 methods x 3 stratifications), seeded bootstrap_ci, group_cm, "
          "group rates, __getitem__, and 'repeat an earlier step'; after every step object state, "
          "constructor inputs and argument arrays are bit-identical, the result equals the same "
          "query on a freshly built clone and equals the memoised result of the same earlier "
          "query. Non-trivial = rank>=2 or size-0 axis (direct); >=5 executed steps with a repeated "
          "query after a different one (history)."),
    clauses=[
        Clause("vectorised", check_vectorised, strategy=_vec_cases(), quick=250, thorough=4800,
               quick_shards=3, min_nontrivial=50, doc="shapes, elementwise = scalar, scalars, aliases"),
        Clause("long_vectors", check_long, kind="enum", cases=_long_cases, quick_shards=8, shards=16,
               min_nontrivial=10, doc="1e3-2e4 targets / thresholds per call vs the scalar calls"),
        Clause("big_nd", check_bignd, kind="enum", cases=_bignd_cases, quick_shards=6, shards=16,
               min_nontrivial=6, doc="2-d / 3-d threshold and target arrays of more than 1e4 entries vs scalar and flattened calls"),
        Clause("pointwise_shape", check_pointwise_shape, strategy=_pw_cases(), quick=400, quick_shards=2,
               thorough=6000, shards=4, min_nontrivial=50, doc="pointwise_cm shape incl. size-0 axes"),
        Clause("history", check_history, kind="machine", machine=make_machine, quick=80,
               thorough=1600, quick_shards=4, steps=30, min_nontrivial=30,
               doc="call histories: no mutation, repeatable, equal to fresh clone"),
    ],
    assumptions=["basic counts (tp() etc.) are only required to have shape (); the property speaks "
                 "of rates and thresholds being plain scalars"],
)

RULE_EXTRA = ('float32 / float16 threshold arrays against float64 scores; clause long_vectors: 1e3-2e4 targets / thresholds per call; Fortran-ordered / non-contiguous threshold, target, score and label arrays; clause big_nd: 2-d / 3-d threshold and target arrays of 1e4-7e4 entries against the scalar calls and the flattened call; a caller-owned work buffer overwritten in place between queries (rule rate_buf).')
