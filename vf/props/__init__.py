"""One module per property; each exposes PROP (a harness.Prop)."""
import importlib

ALL = ["C%02d" % i for i in range(1, 21)]


def load(pid: str):
    pid = pid.upper()
    if pid not in ALL:
        raise KeyError(f"unknown property {pid}")
    mod = importlib.import_module(f"vf.props.{pid.lower()}")
    return mod.PROP
