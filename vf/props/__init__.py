"""One module per property; each exposes PROP (a harness.Prop)."""
import importlib

ALL = ["C%02d" % i for i in range(1, 21)]


def load(pid: str):
    pid = pid.upper()
    if pid not in ALL:
        raise KeyError(f"unknown property {pid}")
    mod = importlib.import_module(f"vf.props.{pid.lower()}")
    prop = mod.PROP
    extra = getattr(mod, "RULE_EXTRA", "")
    if extra and extra not in prop.rule:
        prop.rule = prop.rule + " Strata added during validation (DESIGN.md 7.1): " + extra
    return prop
