"""C13 - bootstrap confidence limits follow the documented quantile / BC / BCa formulas."""

from __future__ import annotations

import math

import numpy as np
from hypothesis import strategies as st

from .. import gen
from ..harness import Clause, Prop, require
from ..oracles import norm_cdf, norm_ppf, quantile_linear

YSHAPES = [(), (), (1,), (2,), (3,), (2, 2), (1, 3)]
ASHAPES = [(), (), (1,), (3,), (2, 2)]
KINDS = ["normal", "discrete", "lognormal", "constant", "outlier", "dyadic"]


@st.composite
def _columns(draw, n, kind):
    if kind == "normal":
        return draw(st.lists(st.floats(min_value=-5, max_value=5), min_size=n, max_size=n))
    if kind == "discrete":
        return [float(x) for x in draw(st.lists(st.integers(0, 3), min_size=n, max_size=n))]
    if kind == "lognormal":
        return [math.exp(2 * x) for x in draw(st.lists(st.floats(min_value=-3, max_value=3), min_size=n, max_size=n))]
    if kind == "constant":
        return [draw(st.sampled_from([1.5, 0.0, -2.0]))] * n
    if kind == "dyadic":
        return [x / 16 for x in draw(st.lists(st.integers(-64, 64), min_size=n, max_size=n))]
    col = draw(st.lists(st.floats(min_value=-5, max_value=5), min_size=n, max_size=n))
    col[draw(st.integers(0, n - 1))] = draw(st.sampled_from([1e6, -1e6]))
    return col


@st.composite
def _pole_cases(draw):
    """Outlier-dominated replicates, estimate far out in one tail, tiny alpha: the BCa acceleration
    term passes its pole between the two tails (agreement with the documented formula is claimed
    everywhere, the ordering claim only away from the pole)."""
    n = draw(st.integers(550, 1200))
    n_out = draw(st.integers(1, 4))
    side = draw(st.sampled_from([1.0, -1.0]))
    seed = draw(st.integers(0, 10**6))
    rs = np.random.RandomState(seed)
    col = (rs.randint(-3, 4, size=n) / 4.0).tolist()
    for i in rs.choice(n, size=n_out, replace=False).tolist():
        col[i] = side * float(draw(st.sampled_from([50.0, 200.0, 1000.0])))
    q = draw(st.sampled_from([0.99, 0.995, 0.999, 0.9]))
    srt = sorted(col)
    est = srt[min(n - 1, int(q * n))] if side > 0 else srt[max(0, int((1 - q) * n))]
    return dict(n=n, Y=[], kind="pole", scale=1.0, cols=[col], nan=[[False] * n], est=[float(est)],
                method="bca", A=[], alpha=[draw(st.sampled_from([1e-3, 1e-4, 1e-5, 1e-6, 0.01]))],
                alpha2=0.5, perm_seed=0, extra_nans=1, aff=[2.0, 1.0], theta_dtype="float64")


@st.composite
def _cases(draw):
    if draw(st.integers(0, 19)) == 0:
        return draw(_pole_cases())
    n = draw(st.one_of(st.integers(1, 6), st.integers(7, 40)))
    Y = draw(st.sampled_from(YSHAPES))
    ny = gen.shape_size(Y)
    kind = draw(st.sampled_from(KINDS))
    cols = [draw(_columns(n, kind)) for _ in range(ny)]
    # the overall scale of a metric is arbitrary (rates of 1e-6, counts of 1e6): nothing in the
    # formulas may depend on it
    scale = draw(st.sampled_from([1.0, 1.0, 1.0, 1.0, 1e-4, 1e-8, 1e5, 2.0 ** -200, 2.0 ** -260, 2.0 ** 170, 2.0 ** 250]))
    if scale != 1.0:
        cols = [[v * scale for v in c] for c in cols]
    elif ny > 1 and draw(st.integers(0, 1)) == 0:
        # components of very different magnitude in one call (a count next to a p-value)
        scale = "per-component"
        cs = draw(st.lists(st.sampled_from([1.0, 2.0 ** 190, 2.0 ** -190, 2.0 ** 130, 2.0 ** -250, 1e80, 1e-10]),
                           min_size=ny, max_size=ny))
        if draw(st.booleans()):
            # ... at least two of them more than 2^370 apart
            cs[0], cs[-1] = draw(st.sampled_from([2.0 ** 190, 1e80])), draw(st.sampled_from([2.0 ** -190, 2.0 ** -250]))
        cols = [[v * c_ for v in c] for c, c_ in zip(cols, cs)]
    nan_mask = [[False] * n for _ in range(ny)]
    if n > 1 and draw(st.booleans()):
        for j in range(ny):
            m = draw(st.lists(st.booleans(), min_size=n, max_size=n))
            keep = draw(st.integers(0, n - 1))
            m[keep] = False
            nan_mask[j] = m
    est = []
    for j in range(ny):
        fin = [x for x, mk in zip(cols[j], nan_mask[j]) if not mk]
        cscale = scale if scale != "per-component" else cs[j]
        k = draw(st.sampled_from(["inside", "on", "below", "above", "median"]))
        if k == "on":
            e = fin[draw(st.integers(0, len(fin) - 1))]
        elif k == "below":
            e = min(fin) - draw(st.sampled_from([0.5, 1e-9, 100.0])) * cscale
        elif k == "above":
            e = max(fin) + draw(st.sampled_from([0.5, 1e-9, 100.0])) * cscale
        elif k == "median":
            e = sorted(fin)[len(fin) // 2] + draw(st.sampled_from([0.0, 0.1])) * cscale
        else:
            e = min(fin) + draw(st.floats(min_value=0, max_value=1)) * (max(fin) - min(fin))
        est.append(float(e))
    method = draw(st.sampled_from(["quantile", "bc", "bca"]))
    A = draw(st.sampled_from(ASHAPES)) if method == "quantile" else ()
    na = gen.shape_size(A)
    alpha = draw(st.lists(st.one_of(st.sampled_from([0.01, 0.05, 0.1, 0.5, 0.9, 0.001, 0.999, 1e-6, 1e-9, 1e-12,
                                                     1 - 1e-9]),
                                    st.floats(min_value=1e-3, max_value=0.999)),
                          min_size=na, max_size=na))
    alpha2 = draw(st.floats(min_value=1e-3, max_value=0.999))
    return dict(n=n, Y=list(Y), kind=kind, scale=scale, cols=cols, nan=nan_mask, est=est, method=method,
                A=list(A), alpha=alpha, alpha2=alpha2,
                perm_seed=draw(st.integers(0, 10**6)), extra_nans=draw(st.integers(1, 3)),
                theta_dtype=draw(st.sampled_from(["float64", "float64", "float32", "int", "F"])),
                alpha_layout=draw(st.sampled_from(["C", "F", "T"])),
                aff=[draw(st.sampled_from([0.5, 2.0, 4.0, 0.125])), float(draw(st.integers(-8, 8)))])


def reference(col, est, alpha, method):
    """(lower, upper, pole) from the docstring / comments of utils.bootstrap_ci."""
    fin = sorted(x for x in col if not math.isnan(x))
    n = len(fin)
    if method == "quantile":
        return quantile_linear(fin, alpha / 2), quantile_linear(fin, 1 - alpha / 2), 0.0
    p0 = sum(1 for x in fin if x <= est) / n
    z0 = norm_ppf(p0)
    zl = norm_ppf(alpha / 2)
    zu = -zl  # the upper alpha/2 point, through the lower tail (1 - alpha/2 would round to 1 for tiny alpha)
    pole = 0.0
    if method == "bc":
        lo, up = 2 * z0 + zl, 2 * z0 + zu
    else:
        num = math.fsum((x - est) ** 3 for x in fin)
        den = 6 * math.fsum((x - est) ** 2 for x in fin) ** 1.5
        a = num / den if den != 0 else 0.0
        if math.isinf(z0):
            lo = up = z0
        else:
            sl, su = z0 + zl, z0 + zu
            pole = max(abs(a * sl), abs(a * su))
            dl, du = 1 - a * sl, 1 - a * su
            lo = z0 + (sl / dl if dl != 0 else math.copysign(math.inf, sl) if sl != 0 else math.nan)
            up = z0 + (su / du if du != 0 else math.copysign(math.inf, su) if su != 0 else math.nan)
    if math.isnan(lo) or math.isnan(up):
        return math.nan, math.nan, pole
    return quantile_linear(fin, norm_cdf(lo)), quantile_linear(fin, norm_cdf(up)), pole


def _theta(case, cols=None):
    n, Y = case["n"], tuple(case["Y"])
    cols = cols if cols is not None else case["cols"]
    arr = np.empty((n, len(cols)), dtype=float)
    for j, c in enumerate(cols):
        arr[:, j] = [math.nan if mk else x for x, mk in zip(c, case["nan"][j])]
    return arr.reshape((n,) + Y)


def check(case):
    from score_analysis.utils import bootstrap_ci

    n, Y, A = case["n"], tuple(case["Y"]), tuple(case["A"])
    method = case["method"]
    theta = _theta(case)
    td = case.get("theta_dtype", "float64")
    has_nan = any(any(r) for r in case["nan"])
    if td == "float32" and case["kind"] in ("discrete", "constant", "dyadic") and case.get("scale", 1.0) in (1.0,):
        theta = theta.astype(np.float32)  # exactly representable values
    elif td == "int" and case["kind"] == "discrete" and not has_nan and case.get("scale", 1.0) == 1.0:
        theta = theta.astype(np.int64)
    elif td == "F" and theta.ndim >= 2:
        theta = np.asfortranarray(theta)
    theta0 = theta.copy()
    est = np.asarray(case["est"], dtype=float).reshape(Y)
    alpha = np.asarray(case["alpha"], dtype=float).reshape(A)
    if len(A) >= 2 and case.get("alpha_layout", "C") != "C":
        # the same alphas in Fortran order / as a transposed view
        alpha = np.asfortranarray(alpha) if case["alpha_layout"] == "F" else np.ascontiguousarray(alpha.T).T
    alpha_arg = float(alpha) if A == () else alpha
    est_arg = float(est) if Y == () else est
    got = np.asarray(bootstrap_ci(theta, est_arg, alpha_arg, method=method))
    require(got.shape == Y + A + (2,), "bci:shape", f"{got.shape} expected {Y + A + (2,)}")
    require(np.array_equal(theta, theta0, equal_nan=True), "bci:mutated-input", "")
    ny = gen.shape_size(Y)
    gotf = got.reshape((ny, -1, 2))
    alist = case["alpha"]
    nontrivial = False
    away = True  # away from the bca pole for every component
    for j in range(ny):
        col = [math.nan if mk else x for x, mk in zip(case["cols"][j], case["nan"][j])]
        fin = [x for x in col if not math.isnan(x)]
        scale = max(abs(x) for x in fin) or 1.0  # relative to the data, never an absolute floor
        e = case["est"][j]
        p0 = sum(1 for x in fin if x <= e) / len(fin)
        if len(fin) >= 3 and len(set(fin)) > 1 and 0 < p0 < 1:
            nontrivial = True
        for k, al in enumerate(alist):
            lo, up, pole = reference(col, e, al, method)
            g = gotf[j, k]
            ctx = f"method={method} alpha={al!r} estimate={e!r} replicates={col}"
            if math.isnan(lo):
                continue
            require(abs(g[0] - lo) <= 1e-9 * scale and abs(g[1] - up) <= 1e-9 * scale, "bci:formula",
                    lambda: f"{ctx}: got {g.tolist()} documented formula gives [{lo!r}, {up!r}]")
            require(min(fin) - 1e-12 * scale <= g[0] and g[1] <= max(fin) + 1e-12 * scale
                    and not (math.isnan(g[0]) or math.isnan(g[1])), "bci:outside-replicate-range",
                    f"{ctx}: {g.tolist()} not within [{min(fin)!r}, {max(fin)!r}]")
            if pole >= 0.99:
                away = False
            else:
                require(g[0] <= g[1] + 1e-12 * scale, "bci:order", f"{ctx}: {g.tolist()}")

    def call(th, es, al=alpha_arg):
        return np.asarray(bootstrap_ci(th, es, al, method=method))

    exact = False
    scale_all = float(np.nanmax(np.abs(theta))) or 1.0
    tol = 1e-9 * scale_all
    if away:
        # NaN replicates appended / replicates permuted
        extra = np.full((case["extra_nans"],) + Y, np.nan)
        g2 = call(np.concatenate([theta, extra], axis=0), est_arg)
        require(np.allclose(g2, got, rtol=0, atol=tol, equal_nan=True), "bci:nan-replicates-matter",
                lambda: f"method={method}: {got.tolist()} vs with NaN rows {g2.tolist()}")
        perm = np.random.RandomState(case["perm_seed"]).permutation(n)
        g3 = call(theta[perm], est_arg)
        require(np.allclose(g3, got, rtol=0, atol=tol, equal_nan=True), "bci:order-of-replicates-matters",
                lambda: f"method={method}: {got.tolist()} vs permuted {g3.tolist()}")
        # increasing affine map (power-of-two scale, integer shift)
        a, b = case["aff"]
        es2 = a * est + b
        from fractions import Fraction

        vals = [x for x in theta.reshape(-1).tolist() if not math.isnan(x)] + list(case["est"])
        exact = all(Fraction(a) * Fraction(x) + Fraction(b) == Fraction(a * x + b) for x in vals)
        g4 = call(a * theta + b, float(es2) if Y == () else es2) if exact else a * got + b
        require(np.allclose(g4, a * got + b, rtol=0, atol=1e-9 * (a * scale_all + abs(b))),
                "bci:affine", lambda: f"method={method} map {a}*x+{b}: {got.tolist()} -> {g4.tolist()}")
        # nesting in alpha (scalar alphas only)
        if A == ():
            a1, a2 = sorted([float(alpha), case["alpha2"]])
            ok_pole = True
            if method == "bca":
                for j in range(ny):
                    col = [math.nan if mk else x for x, mk in zip(case["cols"][j], case["nan"][j])]
                    for al in (a1, a2):
                        if reference(col, case["est"][j], al, method)[2] >= 0.99:
                            ok_pole = False
            if ok_pole and a1 < a2:
                wide, narrow = call(theta, est_arg, a1), call(theta, est_arg, a2)
                require(bool(np.all(wide[..., 0] <= narrow[..., 0] + tol)
                             and np.all(narrow[..., 1] <= wide[..., 1] + tol)), "bci:nesting",
                        lambda: f"method={method}: alpha={a1!r} {wide.tolist()} alpha={a2!r} {narrow.tolist()}")
        # per-component independence
        if ny > 1:
            flat_theta = theta.reshape((n, ny))
            for j in range(ny):
                gj = np.asarray(bootstrap_ci(flat_theta[:, j], case["est"][j], alpha_arg, method=method))
                require(np.allclose(gj.reshape(-1), gotf[j].reshape(-1), rtol=0, atol=1e-12 * scale_all),
                        "bci:components-interact",
                        lambda: f"method={method} component {j}: joint {gotf[j].tolist()} alone {gj.tolist()}")
    labels = [f"method:{method}", f"kind:{case['kind']}", f"Yrank:{len(Y)}", f"scale:{case.get('scale', 1.0)}"]
    if not away:
        labels.append("near-bca-pole")
    if any(any(r) for r in case["nan"]):
        labels.append("has-nan")
    if A != ():
        labels.append("alpha-array")
    if away and exact:
        labels.append("affine-checked")
    return dict(nontrivial=nontrivial, labels=labels)


# ------------------------------------------------------------------ clause: corners
@st.composite
def _corner_cases(draw):
    kind = draw(st.sampled_from(["tiny-alpha", "tiny-alpha", "int8", "bool", "longdouble"]))
    n = draw(st.integers(3, 30))
    vals = [math.exp(x) for x in draw(st.lists(st.floats(min_value=-2, max_value=3), min_size=n, max_size=n))]
    return dict(kind=kind, vals=vals, alpha=draw(st.sampled_from([1e-17, 2.0 ** -60, 1e-100, 1e-300, 1e-16, 3e-16])),
                method=draw(st.sampled_from(["bc", "bca", "quantile"])),
                est=draw(st.sampled_from(["inside", "below", "above"])),
                ints=draw(st.lists(st.sampled_from([-128, 127, -100, 100, 0, 1, -1, 120, -120]), min_size=2, max_size=8)),
                alpha2=draw(st.sampled_from([0.5, 0.1, 0.9])))


def check_corners(case):
    from score_analysis.utils import bootstrap_ci

    kind = case["kind"]
    if kind == "tiny-alpha":
        # alpha is any number in (0, 1): for alpha below 2.2e-16 the level 1 - alpha/2 is not a double
        vals, al, method = case["vals"], case["alpha"], case["method"]
        est = {"inside": sorted(vals)[len(vals) // 2], "below": min(vals) - 1.0, "above": max(vals) + 1.0}[case["est"]]
        got = np.asarray(bootstrap_ci(np.asarray(vals), est, al, method=method), dtype=float)
        lo, up, pole = reference(vals, est, al, method)
        ctx = f"method={method} alpha={al!r} estimate={est!r} replicates={vals}"
        require(not np.isnan(got).any(), "bci:nan", f"{ctx}: got {got.tolist()}")
        require(min(vals) <= got[0] <= max(vals) and min(vals) <= got[1] <= max(vals), "bci:outside-replicate-range",
                f"{ctx}: {got.tolist()}")
        if not math.isnan(lo):
            scale = max(abs(x) for x in vals)
            require(abs(got[0] - lo) <= 1e-9 * scale and abs(got[1] - up) <= 1e-9 * scale, "bci:formula",
                    f"{ctx}: got {got.tolist()} documented formula gives [{lo!r}, {up!r}]")
        return dict(nontrivial=True, labels=["tiny-alpha", f"method:{method}"])
    if kind in ("int8", "bool"):
        # replicates of a count-valued / flag-valued metric held in a small type: the limits are those
        # of the same numbers held as float64
        raw = case["ints"] if kind == "int8" else [v > 0 for v in case["ints"]]
        th = np.asarray(raw, dtype=np.int8 if kind == "int8" else bool)
        ref = np.asarray(raw, dtype=float)
        est = float(ref[0])
        for method in ("quantile", "bc", "bca"):
            got = np.asarray(bootstrap_ci(th, est, case["alpha2"], method=method), dtype=float)
            exp = np.asarray(bootstrap_ci(ref, est, case["alpha2"], method=method), dtype=float)
            require(np.allclose(got, exp, rtol=1e-12, atol=1e-12, equal_nan=True), "bci:dtype-of-replicates",
                    f"method={method} alpha={case['alpha2']} replicates {raw} as {th.dtype}: {got.tolist()}, as float64: {exp.tolist()}")
        return dict(nontrivial=len(set(raw)) > 1, labels=[kind])
    # long-double replicates next to a long-double estimate: "not exceeding the estimate" is decided in that precision
    if np.finfo(np.longdouble).nmant <= 52:
        return dict(nontrivial=False, labels=["no-extended-precision"])
    ld = np.longdouble
    th = np.asarray([ld(1) + ld(2) ** -60, ld(2), ld(3), ld(1) + ld(2) ** -59], dtype=ld)
    got = np.asarray(bootstrap_ci(th, ld(1), case["alpha2"], method="bc"), dtype=float)
    require(got[0] == got[1] == float(th.min()), "bci:formula",
            f"long-double replicates all above the long-double estimate 1 (p0 = 0): bc limits {got.tolist()}, expected the smallest replicate twice")
    return dict(nontrivial=True, labels=["longdouble"])


def check_errors(case):
    from score_analysis.utils import bootstrap_ci

    theta = np.asarray(case["vals"], dtype=float)
    for m in ("bc", "bca"):
        try:
            bootstrap_ci(theta, None, 0.05, method=m)
        except ValueError:
            pass
        else:
            require(False, "bci:missing-estimate-accepted", m)
    try:
        bootstrap_ci(theta, 0.0, 0.05, method=case["bad"])
    except ValueError:
        pass
    else:
        require(False, "bci:unknown-method-accepted", case["bad"])
    return dict(nontrivial=True, labels=["errors"])


_err_cases = st.fixed_dictionaries(dict(
    vals=st.lists(st.floats(min_value=-5, max_value=5), min_size=1, max_size=6),
    bad=st.sampled_from(["percentile", "", "BCA", "studentized"])))

def _tiny_cases(tier):
    for n in (40, 100, 200):
        for shape_ in ("exp", "exp2", "lognormal-ish"):
            for k in (300, 330, 340, 346, -300):
                for method in ("quantile", "bc", "bca"):
                    yield dict(n=n, shape=shape_, k=k, method=method)


def check_tiny(case):
    """Skewed replicates multiplied by an exact power of two down to 2^-346 (all values still normal
    floats; round 10, c13-s: a guard on the acceleration's denominator that treats tiny as zero): the limits
    are the limits of the unscaled replicates times the same factor (equivariance under increasing affine
    maps, exact for a power of two up to the rounding of the cubes)."""
    from score_analysis.utils import bootstrap_ci

    n, k, method = case["n"], case["k"], case["method"]
    u = [(i + 0.5) / n for i in range(n)]
    base = [-math.log(1.0 - x) for x in u]
    if case["shape"] == "exp2":
        base = [b * b for b in base]
    elif case["shape"] == "lognormal-ish":
        base = [math.exp(1.5 * norm_ppf(x)) for x in u]
    perm = np.argsort(np.sin(np.arange(n) * 3.3), kind="stable")
    theta = np.asarray(base)[perm]
    f = 2.0 ** -k
    for est in (float(np.median(theta)), float(np.mean(theta)) * 0.9):
        for alpha in (0.05, 0.2):
            ref = np.asarray(bootstrap_ci(theta, est, alpha, method=method), dtype=float)
            got = np.asarray(bootstrap_ci(theta * f, est * f, alpha, method=method), dtype=float) / f
            require(got.shape == ref.shape == (2,), "bci:shape", f"{got.shape}")
            require(bool(np.all(np.abs(got - ref) <= 1e-6 * np.abs(ref))), "bci:affine",
                    lambda: f"{method} n={n} {case['shape']} replicates x 2^{-k}, estimate {est!r} x 2^{-k}, alpha={alpha}: "
                            f"limits / 2^{-k} = {got.tolist()} but the unscaled replicates give {ref.tolist()}")
    return dict(nontrivial=method != "quantile", labels=[f"k:{k}", f"method:{method}"])


PROP = Prop(
    id="C13",
    rule=("Hypothesis: replicate arrays (N,)+Y, N in 1..40, Y of rank 0-2, contents normal-like / "
          "discrete with ties / log-normal (skewed) / constant / one 1e6 outlier / dyadic, NaNs "
          "scattered with >=1 finite replicate per component, estimate inside / on a replicate / "
          "outside the range, alpha scalar in [1e-3,0.999] or (quantile) an array of shape up to "
          "(2,2), methods quantile/bc/bca. Oracle: independent re-implementation of the documented "
          "formulas (own linear-interpolation quantile, statistics.NormalDist, math.fsum) within "
          "1e-9*scale, everywhere incl. near the BCa pole; plus derived claims checked separately "
          "(limits ordered and within the finite replicate range; unchanged by appended NaN rows "
          "and by permuting replicates; equivariant under power-of-two/integer affine maps; nested "
          "in alpha; component j = call on column j alone; output shape), the BCa ones only where "
          "|a*(z0+z_alpha)| < 0.99. Non-trivial = a component with >=3 finite non-constant "
          "replicates and 0<p0<1."),
    clauses=[
        Clause("formulas", check, strategy=_cases(), quick=700, thorough=14000, quick_shards=4,
               min_nontrivial=200, doc="documented formulas and their corollaries"),
        Clause("tiny_scale", check_tiny, kind="enum", cases=_tiny_cases, quick_shards=4, shards=4,
               min_nontrivial=60, doc="skewed replicates times 2^-300..2^-346 / 2^300: limits scale by the same factor"),
        Clause("corners", check_corners, strategy=_corner_cases(), quick=150, thorough=3000, quick_shards=2,
               min_nontrivial=50, doc="alpha below 2.2e-16; int8 / bool / long-double replicates"),
        Clause("errors", check_errors, strategy=_err_cases, quick=30, thorough=240, shards=1,
               min_nontrivial=5, doc="bc/bca need theta_hat; unknown method"),
    ],
    assumptions=["normal cdf/quantile reference: stdlib (statistics.NormalDist, math.erfc)",
                 "every component has at least one finite replicate (the 'within the range of the "
                 "finite replicates' claim presupposes one)"],
)

RULE_EXTRA = ('clause tiny_scale: skewed replicates times exact powers of two down to 2^-346 (values normal, cubes of deviations subnormal) - limits equal the unscaled limits times the factor (rtol 1e-6); components of one call scaled by factors from 2^-250 to 2^190 apart (cubes stay below the overflow threshold); alpha arrays in Fortran order / as transposed views; replicates scaled by 1e-8..1e5 and by 2^-260..2^250 with purely relative tolerances; alphas 1e-12..1-1e-9; float32 / int64 / Fortran-ordered replicate arrays.')
