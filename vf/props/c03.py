"""C03 - extreme operating points (r <= 0, r >= 1) are honoured exactly."""

from __future__ import annotations

import math
from fractions import Fraction

import numpy as np
from hypothesis import strategies as st

from .. import gen
from ..harness import Clause, HarnessError, Prop, require
from ..oracles import (CONFIGS, METRICS, achievable_range, rate_frac, ref_cm, relevant_scores,
                       ulp_step)

MODES = ("grid", "grid", "dyadic", "distinct", "float", "int", "uint")
METHODS = ("linear", "lower", "higher")


def brute_extremes(m, pos, neg, ep, en, sc, ec):
    """min / max of the metric over thresholds at every score and one ulp either side."""
    cands = set()
    for x in list(pos) + list(neg):
        x = float(x)
        cands.update((x, ulp_step(x, 1), ulp_step(x, -1)))
    vals = [rate_frac(m, ref_cm(pos, neg, t, sc, ec, ep, en)) for t in cands]
    return min(vals), max(vals)


def _low_targets():
    return st.one_of(st.sampled_from([0.0, -0.0, -1e-300, -1e-9, -0.1, -1.0, -1e6, -1e19, -1e30, -1e300]),
                     st.floats(min_value=-1e3, max_value=0.0, allow_nan=False))


def _high_targets():
    return st.one_of(st.sampled_from([1.0, 1.0 + 2.3e-16, 1 + 1e-9, 1.1, 2.0, 1e6, 1e19, 1e30, 1e300]),
                     st.floats(min_value=1.0, max_value=1e3, allow_nan=False))


@st.composite
def _cases(draw):
    s = draw(gen.score_sets(max_size=8, modes=MODES, mag=1e6, huge_easy="beyond-float", containers=("f64", "f64", "f32", "list", "neg-int", "pos-int", "neg-f32", "f128", "series", "swapped")))
    lows = draw(st.lists(_low_targets(), min_size=1, max_size=2))
    highs = draw(st.lists(_high_targets(), min_size=1, max_size=2))
    interior = draw(st.lists(st.floats(min_value=0.01, max_value=0.99), min_size=0, max_size=2))
    mix = draw(st.permutations(lows + highs + interior))
    return dict(s=s, targets=list(mix), scalar_idx=draw(st.integers(0, len(mix) - 1)),
                sentinel=draw(st.sampled_from([None, None, None, "low", "high", "both"])),
                derived=draw(st.sampled_from(["none", "none", "proportion", "replacement", "single_pass", "swap", "sample-of-swap"])),
                seed=draw(gen.RNG_SEED), ratio=draw(st.sampled_from([0.5, 0.8, 0.34])),
                target_dtype=draw(st.sampled_from([None, "float32", "float16", "longdouble"])))


def _check_obj(s, targets, scalar_idx, tag="", int_array=False, derive=None, tdt=None):
    from score_analysis import Scores

    dt = int if s.get("mode") == "int" else float
    rs = np.asarray(targets, dtype=tdt or (int if int_array else float))
    for sc, ec in CONFIGS:
        pos, neg, ep, en = s["pos"], s["neg"], s["ep"], s["en"]
        obj = Scores(gen.build_scores(s, "pos") if "container" in s else np.asarray(pos, dtype=dt),
                     gen.build_scores(s, "neg") if "container" in s else np.asarray(neg, dtype=dt),
                     nb_easy_pos=ep, nb_easy_neg=en, score_class=sc, equal_class=ec)
        if derive is not None and pos and neg and ep < 2**31 and en < 2**31:
            # the subject is an object handed out by the library (bootstrap sample, swap()); the
            # oracle counts on the multiset of scores that object holds
            from .c02 import _derive

            obj = _derive(obj, derive)
            pos, neg = [float(x) for x in obj.pos], [float(x) for x in obj.neg]
            ep, en = int(obj.nb_easy_pos), int(obj.nb_easy_neg)
            sc, ec = obj.score_class.value, obj.equal_class.value
        for m in METRICS:
            if not relevant_scores(m, pos, neg):
                continue
            closed = achievable_range(m, len(pos), len(neg), ep, en)
            lo, hi = brute_extremes(m, pos, neg, ep, en, sc, ec)
            if (lo, hi) != closed:
                raise HarnessError(f"oracle mismatch {m}: brute {(lo, hi)} closed {closed}")
            f = getattr(obj, m)
            th = getattr(obj, "threshold_at_" + m)
            lo_f, hi_f = lo.numerator / lo.denominator, hi.numerator / hi.denominator
            for meth in METHODS:
                t = np.asarray(th(rs, method=meth), dtype=float)
                v = np.asarray(f(t), dtype=float)
                for i, r in enumerate(targets):  # pristine values: the array object rs is re-used
                    if r <= 0 or r >= 1:
                        # ... and by exact counting at the returned threshold (for class totals
                        # beyond 2^53 the float rates can no longer tell two thresholds apart)
                        exact = rate_frac(m, ref_cm(pos, neg, float(t[i]), sc, ec, ep, en))
                        want = lo if r <= 0 else hi
                        require(exact == want, f"ext:{m}:low" if r <= 0 else f"ext:{m}:high",
                                lambda: f"{tag}{m} config={sc}/{ec} method={meth} r={r!r}: counting at the returned "
                                        f"threshold {t[i]!r} gives {m}={exact}, the "
                                        f"{'lowest' if r <= 0 else 'highest'} achievable value is {want}")
                    if len(pos) + len(neg) + ep + en >= 2**53:
                        continue  # the float rates themselves are rounded there; counting decides
                    if r <= 0:
                        require(v[i] == lo_f, f"ext:{m}:low",
                                lambda: f"{tag}{m} config={sc}/{ec} method={meth} r={r!r}: threshold "
                                        f"{t[i]!r} gives {m}={v[i]!r}, lowest achievable is {lo_f!r} "
                                        f"({lo})")
                    elif r >= 1:
                        require(v[i] == hi_f, f"ext:{m}:high",
                                lambda: f"{tag}{m} config={sc}/{ec} method={meth} r={r!r}: threshold "
                                        f"{t[i]!r} gives {m}={v[i]!r}, highest achievable is {hi_f!r} "
                                        f"({hi})")
                # scalar call at one of the targets
                r = float(targets[scalar_idx])
                if tdt:
                    r = np.dtype(tdt).type(r)  # a NumPy scalar of that precision
                elif r == int(r) and abs(r) < 1e6:
                    r = int(r)  # 0, 1, -1, 2 ... as the caller would write them
                if r <= 0 or r >= 1:
                    ts = th(r, method=meth)
                    exact = rate_frac(m, ref_cm(pos, neg, float(ts), sc, ec, ep, en))
                    require(exact == (lo if r <= 0 else hi), f"ext:{m}:low" if r <= 0 else f"ext:{m}:high",
                            lambda: f"{tag}{m} config={sc}/{ec} method={meth} scalar r={r!r}: counting at "
                                    f"threshold {ts!r} gives {exact}, expected {lo if r <= 0 else hi}")
                    vs = float(f(ts))
                    want = lo_f if r <= 0 else hi_f
                    require(vs == want or len(pos) + len(neg) + ep + en >= 2**53, f"ext:{m}:low" if r <= 0 else f"ext:{m}:high",
                            lambda: f"{tag}{m} config={sc}/{ec} method={meth} scalar r={r!r}: "
                                    f"threshold {ts!r} gives {vs!r}, expected {want!r}")


def _with_sentinels(s, kind):
    """The lowest / highest score replaced by -/+ the largest finite float (a common 'comparison
    failed' sentinel): still a finite score."""
    import sys

    if not kind or s.get("container") not in ("f64", "list", "f128") or s["mode"] in ("int", "uint"):
        return s, False
    big = sys.float_info.max
    pos, neg = list(s["pos"]), list(s["neg"])
    allv = [(v, "p", i) for i, v in enumerate(pos)] + [(v, "n", i) for i, v in enumerate(neg)]
    if not allv:
        return s, False
    for want, val in (("low", -big), ("high", big)):
        if kind in (want, "both"):
            v, c, i = (min if want == "low" else max)(allv, key=lambda z: z[0])
            (pos if c == "p" else neg)[i] = val
            allv = [(v, "p", i) for i, v in enumerate(pos)] + [(v, "n", i) for i, v in enumerate(neg)]
    return dict(s, pos=pos, neg=neg), True


def check(case):
    s, sent = _with_sentinels(case["s"], case.get("sentinel"))
    _check_obj(s, case["targets"], case["scalar_idx"])
    # the two extreme targets written as an integer array
    _check_obj(s, [0, 1, -1, 2], case["scalar_idx"] % 4, tag="integer targets: ", int_array=True)
    # targets held in single / half / extended precision (values exactly representable there)
    tdt = case.get("target_dtype")
    if tdt:
        _check_obj(s, [0.0, 1.0, -0.5, 1.5, 2.0], case["scalar_idx"] % 5, tag=f"{tdt} targets: ", tdt=tdt)
    if case.get("derived", "none") != "none" and not sent:
        _check_obj(case["s"], case["targets"], case["scalar_idx"], tag=f"object from {case['derived']}: ", derive=case)
    labels = [f"mode:{s['mode']}"]
    if sent:
        labels.append("float-max-sentinel")
    labels.append(f"object:{case.get('derived', 'none')}")
    if case.get("target_dtype"):
        labels.append(f"targets:{case['target_dtype']}")
    if s["ep"] or s["en"]:
        labels.append("easy")
    if len(s["pos"]) == 1 or len(s["neg"]) == 1:
        labels.append("single-sample-class")
    return dict(nontrivial=bool(s["pos"] or s["neg"]), labels=labels)


# ---------------------------------------------------------------- exhaustive over sizes
def _enum(tier):
    nmax, emax = (40, 16) if tier == "quick" else (300, 60)
    for n in range(1, nmax + 1):
        for e in range(0, emax + 1):
            yield dict(n=n, m=1 + (n * 7 + e) % 3, ep=e, en=(n + e) % 4)
            yield dict(n=1 + (n * 5 + e) % 3, m=n, ep=(n + 2 * e) % 4, en=e)


def check_sizes(case):
    n, m = case["n"], case["m"]
    # equally spaced distinct scores, interleaved between the classes
    pos = [0.5 + 2.0 * i for i in range(n)]
    neg = [1.25 + 2.0 * i for i in range(m)]
    s = dict(pos=pos, neg=neg, ep=case["ep"], en=case["en"], mode="distinct")
    _check_obj(s, [0.0, 1.0, -0.5, 1.5], 0, tag=f"sizes n={n} m={m} ep={case['ep']} en={case['en']} ")
    return dict(nontrivial=True, labels=["sizes"])


def _easy_swamps_scored(case):
    """D17: more than 2^53 easy samples per scored sample; `hard_ratio = 1 - easy_ratio` is then 0."""
    s = case["s"]
    scored = len(s["pos"]) + len(s["neg"])
    return scored > 0 and (s["ep"] + s["en"]) >= scored * 2**53


# ---------------------------------------------------------------------- score types wider than a double
@st.composite
def _wide_cases(draw):
    n, m = draw(st.integers(0, 5)), draw(st.integers(0, 5))
    return dict(kind=draw(st.sampled_from(["int64>2^53", "int64-top", "int64-bottom", "uint64", "longdouble"])),
                kpos=draw(st.lists(st.integers(0, 12), min_size=n, max_size=n)),
                kneg=draw(st.lists(st.integers(0, 12), min_size=m, max_size=m)),
                ep=draw(st.sampled_from([0, 0, 3])), en=draw(st.sampled_from([0, 0, 2])))


def check_wide(case):
    """64-bit integer scores beyond 2^53 and at both ends of the int64 range, uint64 scores beyond 2^63 and
    long-double scores 2^-60 apart: the threshold for r = 0 / 1 must put the library's own rate at the extreme."""
    from score_analysis import Scores

    kind = case["kind"]
    if kind == "longdouble" and np.finfo(np.longdouble).nmant <= 52:
        return dict(nontrivial=False, labels=["no-extended-precision"])

    def arr(ks):
        if kind == "int64>2^53":
            return np.int64(2**53 + 1) + np.asarray(ks, dtype=np.int64)
        if kind == "int64-top":
            return np.int64(2**63 - 1) - np.asarray(ks, dtype=np.int64)
        if kind == "int64-bottom":
            return np.int64(-2**63) + np.asarray(ks, dtype=np.int64)
        if kind == "uint64":
            return np.uint64(2**63) + np.asarray(ks, dtype=np.uint64)
        return np.longdouble(1) + (np.asarray(ks, dtype=np.longdouble) + 1) * np.longdouble(2) ** -60

    pos, neg = arr(case["kpos"]), arr(case["kneg"])
    n, m, ep, en = len(pos), len(neg), case["ep"], case["en"]
    done = 0
    for sc, ec in CONFIGS:
        o = Scores(pos, neg, nb_easy_pos=ep, nb_easy_neg=en, score_class=sc, equal_class=ec)
        for mt in METRICS:
            if not relevant_scores(mt, list(pos), list(neg)):
                continue
            lo, hi = (float(v) for v in achievable_range(mt, n, m, ep, en))
            for r, want in ((0.0, lo), (1.0, hi), (-0.25, lo), (1.5, hi)):
                for method in ("linear", "lower", "higher"):
                    t = getattr(o, "threshold_at_" + mt)(r, method=method)
                    got = float(getattr(o, mt)(t))
                    done += 1
                    require(got == want, "ext:wide-type",
                            lambda: f"{kind} scores pos-offsets={case['kpos']} neg-offsets={case['kneg']} ep={ep} en={en} "
                                    f"config={sc}/{ec}: threshold_at_{mt}({r}, method={method!r}) = {t!r}, where {mt} is "
                                    f"{got!r}; the extreme is {want!r}")
    return dict(nontrivial=done > 0 and len(set(case["kpos"]) | set(case["kneg"])) >= 2, labels=[f"wide:{kind}"])


PROP = Prop(
    id="C03",
    rule=("Hypothesis: score sets (ties, tie-free, floats |x|<=1e6, int dtype, single-sample "
          "classes, easy counts 0..200, classes may be empty - a metric is checked when its relevant "
          "class is non-empty) x target arrays mixing r<=0 (0, -0.0, tiny/large negative), r>=1 "
          "(1, 1+ulp, large) and interior values, plus one scalar call, x 6 metrics x 4 configs x 3 "
          "methods per case. Oracle: the metric (by the object) at the returned threshold equals, "
          "as an exact float, the brute-force minimum (r<=0) / maximum (r>=1) of the counting "
          "reference over thresholds at every score +-1ulp (asserted equal to the closed-form "
          "achievable range). Exhaustive part: every size pair (N<=40, easy<=16) quick / (N<=300, "
          "easy<=60) thorough for each class, equally spaced scores. Every case is non-trivial "
          "(all carry extreme targets) unless both classes are empty; distinct = distinct case JSON."),
    clauses=[
        Clause("extremes", check, strategy=_cases(), quick=250, thorough=4800, quick_shards=4,
               min_nontrivial=100, doc="random score sets, extreme targets, all methods"),
        Clause("wide_types", check_wide, strategy=_wide_cases(), quick=120, thorough=2000, quick_shards=2,
               min_nontrivial=40, doc="extremes for int64/uint64 scores beyond 2^53 / at the ends of the range and long doubles"),
        Clause("sizes", check_sizes, kind="enum", cases=_enum, quick_shards=4, shards=16,
               min_nontrivial=100,
               doc="all (N, nb_easy) size pairs up to the bound (rounding-sensitive rescaling)"),
    ],
    predicates={"easy_swamps_scored": _easy_swamps_scored},
    assumptions=["scores: |score| <= 1e6, plus the largest finite float as lowest / highest score",
                 "easy counts up to 2^55+5; see known finding D17 for TOPR/TONR when easy samples "
                 "outnumber the scored ones by more than 2^53"],
)

RULE_EXTRA = ('score containers as in C02 (incl. uint8/uint16/bool and long double); integral targets written as Python ints and as an integer array; one target array object re-used across all calls of a case, expectations taken from the pristine target list. Clause wide_types: int64 scores at both ends of the int64 range and beyond 2^53, uint64 beyond 2^63, long doubles 2^-60 apart (oracle: the rate the library reports at the returned threshold is the extreme).')
