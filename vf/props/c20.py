"""C20 - synthetic datasets hit their specified operating points and proportions."""

from __future__ import annotations

import math
from fractions import Fraction as F

import numpy as np
from hypothesis import strategies as st

from .. import gen
from ..harness import Clause, Prop, Violation, require

RATE = st.one_of(st.floats(min_value=1e-9, max_value=1 - 1e-9),
                 st.floats(min_value=0.01, max_value=0.99),
                 st.sampled_from([0.5, 0.1, 0.9, 1e-6, 0.999, 1e-100, 1e-300, 1e-309, 3e-310]))
MOD_RATE = st.one_of(st.floats(min_value=1e-6, max_value=1 - 1e-6), st.floats(min_value=0.01, max_value=0.99),
                     st.sampled_from([1e-9, 1e-12, 1e-17, 1e-30, 1e-100]))  # any rate in (0, 1)
SIGMA = st.floats(min_value=-3, max_value=3).map(math.exp)
MU = st.floats(min_value=-50, max_value=50)


@st.composite
def _normal_cases(draw):
    return dict(mu_pos=draw(MU), mu_neg=draw(st.one_of(st.none(), MU)), sp=draw(SIGMA), sn=draw(SIGMA),
                sc=draw(st.sampled_from(["pos", "neg"])), r=draw(RATE), r2=draw(RATE),
                z=draw(st.floats(min_value=-4, max_value=4)),
                rates=sorted(draw(st.lists(st.floats(min_value=1e-3, max_value=1 - 1e-3), min_size=1, max_size=4))),
                fm=draw(st.one_of(
                    st.tuples(MOD_RATE, MOD_RATE, st.integers(1, 10**4), st.integers(1, 10**4)).map(list),
                    # rates written as decimals with supports that are whole multiples of them
                    st.tuples(st.sampled_from([0.1, 0.2, 0.4, 0.05, 0.01, 0.15, 0.35, 0.3, 0.7, 0.25]),
                              st.sampled_from([0.1, 0.4, 0.05, 0.02, 0.6, 0.125]), st.integers(1, 50), st.integers(1, 50))
                    .map(lambda t: [t[0], t[1], max(1, round(t[2] * 20 * t[0])), max(1, round(t[3] * 40 * t[1]))]))),
                n=draw(st.integers(1, 3000)), p_pos=draw(st.sampled_from([0.5, 0.0, 1.0, 0.3, 0.97])),
                seed=draw(st.integers(0, 2**31 - 1)),
                # a model whose scores sit far from zero relative to their spread
                int_model=dict(mu_pos=draw(st.integers(-100, 100)), mu_neg=draw(st.integers(-100, 100)),
                               sp=draw(st.sampled_from([10, 12, 1, 2.5])), sn=draw(st.sampled_from([12, 3, 0.5])),
                               thr=draw(st.lists(st.integers(-120, 250), min_size=1, max_size=4))),
                far=dict(mu=draw(st.sampled_from([1e8, -1e8, 3e9, 1e6, -2.5e7])),
                         sigma=draw(st.sampled_from([2e-6, 1e-5, 1e-3, 5e-7]))))


def _isclose(a, b, rel, abs_=0.0):
    return abs(a - b) <= rel * max(abs(a), abs(b)) + abs_


def _okint(v: int, q: F) -> bool:
    """v is the largest integer not exceeding q 'to floating-point accuracy': the exact floor, or
    an integer within the rounding error of one float multiplication/division of size q."""
    return v == math.floor(q) or abs(F(v) - q) <= max(F(1, 10**13), abs(q) * F(4, 10**16))


def _size_ok(v: int, q: F) -> bool:
    """A class size 'implied' by support / rate: the largest integer not exceeding the quotient as a
    double (q is the exact quotient of the two binary floats, float(q) its correctly rounded double):
    40 / 0.4 is 100 although the double 0.4 lies slightly above 4/10, 1 / 1e-05 is 99999.99999999999."""
    return v == int(float(q))


def check_normal(case):
    from score_analysis import BinaryLabel
    from score_analysis.experimental import NormalDataset

    d = NormalDataset(mu_pos=case["mu_pos"], mu_neg=case["mu_neg"], sigma_pos=case["sp"],
                      sigma_neg=case["sn"], score_class=case["sc"])
    mu_neg = -case["mu_pos"] if case["mu_neg"] is None else case["mu_neg"]
    require(d.mu_neg == mu_neg, "ds:default-mu-neg", f"{d.mu_neg!r}")
    ctx = f"NormalDataset(mu_pos={case['mu_pos']!r}, mu_neg={mu_neg!r}, sigma_pos={case['sp']!r}, sigma_neg={case['sn']!r})"
    for r in (case["r"], case["r2"]):
        t = d.threshold_at_fnr(r)
        require(np.isscalar(t), "ds:not-scalar", f"threshold_at_fnr({r!r}) -> {type(t).__name__}")
        v = d.fnr(t)
        require(np.isscalar(v), "ds:not-scalar", f"fnr(scalar) -> {type(v).__name__}")
        require(_isclose(v, r, 1e-9) and _isclose(1 - v, 1 - r, 1e-6, 1e-15), "ds:fnr-inverse",
                f"{ctx}: fnr(threshold_at_fnr({r!r})) = {v!r}")
        t = d.threshold_at_fpr(r)
        require(np.isscalar(t), "ds:not-scalar", f"threshold_at_fpr({r!r}) -> {type(t).__name__}")
        v = d.fpr(t)
        require(_isclose(v, r, 1e-9) and _isclose(1 - v, 1 - r, 1e-6, 1e-15), "ds:fpr-inverse",
                f"{ctx}: fpr(threshold_at_fpr({r!r})) = {v!r}")
    # thresholds within 4 sigma of the class mean are recovered from their rate
    tp = case["mu_pos"] + case["z"] * case["sp"]
    require(abs(d.threshold_at_fnr(d.fnr(tp)) - tp) <= 1e-8 * case["sp"] + 1e-12 * abs(tp), "ds:fnr-inverse",
            f"{ctx}: threshold_at_fnr(fnr({tp!r})) = {d.threshold_at_fnr(d.fnr(tp))!r}")
    tn = mu_neg + case["z"] * case["sn"]
    require(abs(d.threshold_at_fpr(d.fpr(tn)) - tn) <= 1e-8 * case["sn"] + 1e-12 * abs(tn), "ds:fpr-inverse",
            f"{ctx}: threshold_at_fpr(fpr({tn!r})) = {d.threshold_at_fpr(d.fpr(tn))!r}")
    # direction: FNR increases with the threshold, FPR decreases
    require(d.fnr(tp + case["sp"]) > d.fnr(tp - case["sp"]) and d.fpr(tn + case["sn"]) < d.fpr(tn - case["sn"]),
            "ds:direction", ctx)
    # array in -> array out
    rr = np.asarray(case["rates"], dtype=float)
    ta = d.threshold_at_fnr(rr)
    require(np.asarray(ta).shape == rr.shape and np.allclose(d.fnr(ta), rr, rtol=1e-9, atol=0), "ds:fnr-inverse", ctx)
    # roc
    for axis in ("fnr", "fpr"):
        c = d.roc(**{axis: rr})
        th = np.asarray(c.thresholds, dtype=float)
        require(len(c.fnr) == len(c.fpr) == len(th) == len(rr), "ds:roc-lengths", ctx)
        require(np.allclose(c.fnr, d.fnr(th), rtol=1e-12, atol=0) and np.allclose(c.fpr, d.fpr(th), rtol=1e-12, atol=0),
                "ds:roc-rates", f"{ctx}: roc({axis}=...) rates differ from the model's rates at its thresholds")
        require(np.allclose(getattr(c, axis), rr, rtol=1e-9, atol=0), "ds:roc-axis",
                f"{ctx}: roc({axis}={rr.tolist()}) reproduces {np.asarray(getattr(c, axis)).tolist()}")
    # ... also where thresholds are coarse compared with the spread of the scores (|mu| >> sigma):
    # whatever thresholds are returned, the curve's rates are the model's rates at them
    if case.get("far"):
        mu_, sg_ = case["far"]["mu"], case["far"]["sigma"]
        df = NormalDataset(mu_pos=mu_, mu_neg=mu_ - 3 * sg_, sigma_pos=sg_, sigma_neg=2 * sg_, score_class=case["sc"])
        for axis in ("fnr", "fpr"):
            c = df.roc(**{axis: rr})
            th = np.asarray(c.thresholds, dtype=float)
            require(np.allclose(c.fnr, df.fnr(th), rtol=1e-12, atol=0) and np.allclose(c.fpr, df.fpr(th), rtol=1e-12, atol=0),
                    "ds:roc-rates", lambda: f"NormalDataset(mu_pos={mu_!r}, sigma_pos={sg_!r}, ...).roc({axis}={rr.tolist()}): "
                                            f"curve {axis} {np.asarray(getattr(c, axis)).tolist()} but the model's {axis} at the "
                                            f"returned thresholds is {np.asarray(getattr(df, axis)(th)).tolist()}")
    # a model given with whole-number means, asked at whole-number thresholds held in small
    # integer types (quantised scores): the same rates as for the same numbers as floats
    im = case.get("int_model")
    if im:
        di = NormalDataset(mu_pos=im["mu_pos"], mu_neg=im["mu_neg"], sigma_pos=im["sp"], sigma_neg=im["sn"],
                           score_class=case["sc"])
        tf = np.asarray(im["thr"], dtype=float)
        want_fnr, want_fpr = np.asarray(di.fnr(tf), dtype=float), np.asarray(di.fpr(tf), dtype=float)
        for i, t in enumerate(im["thr"]):  # against the closed form
            z = (t - im["mu_pos"]) / im["sp"]
            require(abs(want_fnr[i] - 0.5 * math.erfc(-z / math.sqrt(2))) <= 1e-12, "ds:rate",
                    f"NormalDataset(mu_pos={im['mu_pos']}, sigma_pos={im['sp']}).fnr({t}) = {want_fnr[i]!r}")
        for dtn in ("uint8", "int8", "uint16", "int64", "list", "pyint"):
            if dtn in ("uint8", "uint16") and min(im["thr"]) < 0 or dtn == "int8" and max(map(abs, im["thr"])) > 127:
                continue
            ti = list(im["thr"]) if dtn == "list" else int(im["thr"][0]) if dtn == "pyint" else np.asarray(im["thr"], dtype=dtn)
            sel = slice(0, 1) if dtn == "pyint" else slice(None)
            got_fnr, got_fpr = np.atleast_1d(np.asarray(di.fnr(ti), dtype=float)), np.atleast_1d(np.asarray(di.fpr(ti), dtype=float))
            require(np.allclose(got_fnr, want_fnr[sel], rtol=1e-12, atol=0) and np.allclose(got_fpr, want_fpr[sel], rtol=1e-12, atol=0),
                    "ds:rate", lambda: f"NormalDataset(mu_pos={im['mu_pos']}, mu_neg={im['mu_neg']}, ...): rates at thresholds "
                                       f"{im['thr']} held as {dtn}: fnr {got_fnr.tolist()} fpr {got_fpr.tolist()}, as floats: "
                                       f"fnr {want_fnr[sel].tolist()} fpr {want_fpr[sel].tolist()}")
    for kw in ({}, dict(fnr=rr, fpr=rr)):
        try:
            d.roc(**kw)
            raise Violation("ds:roc-bad-args-accepted", str(list(kw)))
        except ValueError:
            pass
    # from_metrics
    fnr, fpr, s1, s2 = case["fm"]
    m = NormalDataset.from_metrics(fnr, fpr, s1, s2, sigma_pos=case["sp"], sigma_neg=case["sn"])
    require(_isclose(m.fnr(0.0), fnr, 1e-9) and _isclose(m.fpr(0.0), fpr, 1e-9), "ds:from-metrics-rates",
            f"from_metrics({fnr!r},{fpr!r},..): fnr(0)={m.fnr(0.0)!r} fpr(0)={m.fpr(0.0)!r}")
    # the implied class sizes (see _size_ok): n is their sum, p_pos the share of the positives
    exp_pos, exp_neg = int(float(F(s1) / F(fnr))), int(float(F(s2) / F(fpr)))
    require(m.n == exp_pos + exp_neg and abs(m.p_pos - exp_pos / (exp_pos + exp_neg)) <= 4e-16,
            "ds:from-metrics-sizes",
            f"from_metrics({fnr!r},{fpr!r},{s1},{s2}): n={m.n} p_pos={m.p_pos!r}; implied sizes are {exp_pos} positives "
            f"({s1}/{fnr!r}) and {exp_neg} negatives ({s2}/{fpr!r}), i.e. n={exp_pos + exp_neg}, p_pos={exp_pos / (exp_pos + exp_neg)!r}")
    require(BinaryLabel(m.score_class) == BinaryLabel.pos and m.sigma_pos == case["sp"] and m.sigma_neg == case["sn"],
            "ds:from-metrics-params", "")
    # the caller edits its model (a plain dataclass); the same request made again must be answered correctly again
    m.n, m.p_pos, m.mu_pos, m.mu_neg = 7, 0.5, m.mu_pos + 1.0, m.mu_neg - 2.0
    m2 = NormalDataset.from_metrics(fnr, fpr, s1, s2, sigma_pos=case["sp"], sigma_neg=case["sn"])
    require(_isclose(m2.fnr(0.0), fnr, 1e-9) and _isclose(m2.fpr(0.0), fpr, 1e-9) and m2.n == exp_pos + exp_neg
            and abs(m2.p_pos - exp_pos / (exp_pos + exp_neg)) <= 4e-16, "ds:from-metrics-repeat",
            f"from_metrics({fnr!r},{fpr!r},{s1},{s2}) called again after the first model was edited: fnr(0)={m2.fnr(0.0)!r} "
            f"fpr(0)={m2.fpr(0.0)!r} n={m2.n} p_pos={m2.p_pos!r}")
    # sample
    n = case["n"]
    s = d.sample(n, p_pos=case["p_pos"], rng=np.random.default_rng(case["seed"]))
    require(s.nb_all_samples == n and len(s.pos) + len(s.neg) == n, "ds:sample-size",
            f"sample({n}) has {len(s.pos)}+{len(s.neg)} scores")
    require(s.score_class == BinaryLabel(case["sc"]), "ds:sample-direction", f"{s.score_class} vs {case['sc']}")
    if case["p_pos"] == 0.0:
        require(len(s.pos) == 0, "ds:sample-split", "p_pos=0 gave positives")
    if case["p_pos"] == 1.0:
        require(len(s.neg) == 0, "ds:sample-split", "p_pos=1 gave negatives")
    s2_ = d.sample(n, p_pos=case["p_pos"], rng=np.random.default_rng(case["seed"]))
    require(s == s2_, "ds:sample-not-reproducible", "")
    dn = NormalDataset(mu_pos=case["mu_pos"], sigma_pos=case["sp"], n=n, p_pos=case["p_pos"], score_class=case["sc"])
    require(dn.sample(rng=np.random.default_rng(case["seed"])).nb_all_samples == n, "ds:sample-size", "default n")
    far = all(abs(x - 0.5) > 1e-3 for x in (case["r"], case["r2"], fnr, fpr))
    return dict(nontrivial=far, labels=[f"sc:{case['sc']}"])


# ---------------------------------------------------------------------------- Bernoulli
@st.composite
def _bern_cases(draw):
    prob = st.one_of(st.sampled_from([0.0, 1.0]), st.integers(0, 10).map(lambda k: k / 10),
                     st.integers(0, 100).map(lambda k: k / 100), st.floats(min_value=0.0, max_value=1.0))
    n = draw(st.one_of(st.integers(1, 50), st.integers(51, 10**4)))
    if draw(st.integers(0, 3)) == 0:
        # p a little below / above a multiple of 1/n: far outside rounding error, but close
        k = draw(st.integers(1, n))
        delta = draw(st.sampled_from([1e-4, 1e-6, 1e-7, 1e-8, 1e-10, 1e-11]))
        p_near = (k - delta) / n if draw(st.booleans()) or k == n else min((k + delta) / n, 1.0)
        return dict(p=p_near, p1=draw(prob), p2=draw(prob), rho=draw(st.floats(min_value=-1, max_value=1)),
                    n=n, seed=draw(st.integers(0, 2**31 - 1)))
    return dict(p=draw(prob), p1=draw(prob), p2=draw(prob), rho=draw(st.one_of(st.floats(min_value=-1, max_value=1),
                                                                              st.sampled_from([0.0, 1.0, -1.0, 0.5]))),
                n=draw(st.one_of(st.integers(1, 50), st.integers(51, 10**4))), seed=draw(st.integers(0, 2**31 - 1)))


def check_bernoulli(case):
    from score_analysis.experimental import BernoulliDataset, CorrelatedBernoullilDataset

    n, p = case["n"], case["p"]
    x = BernoulliDataset(p).sample(n, random=False, rng=np.random.default_rng(case["seed"]))
    x = np.asarray(x)
    require(x.shape == (n,) and set(np.unique(x).tolist()) <= {0, 1}, "ds:bernoulli-shape",
            f"p={p!r} n={n}: shape {x.shape} values {np.unique(x).tolist()}")
    q = F(p) * n
    require(_okint(int(x.sum()), q), "ds:bernoulli-count",
            f"BernoulliDataset({p!r}).sample({n}, random=False) has {int(x.sum())} successes, floor(n*p) = "
            f"{math.floor(q)} (n*p = {float(q)!r})")
    xr = np.asarray(BernoulliDataset(p, n=n).sample(random=True, rng=np.random.default_rng(case["seed"])))
    require(xr.shape == (n,) and set(np.unique(xr).tolist()) <= {0, 1}, "ds:bernoulli-shape", "random=True")
    x2 = np.asarray(BernoulliDataset(p).sample(n, random=False, rng=np.random.default_rng(case["seed"])))
    require(np.array_equal(x, x2), "ds:sample-not-reproducible", "Bernoulli")
    try:
        BernoulliDataset(p).sample()
        raise Violation("ds:missing-n-accepted", "BernoulliDataset.sample() without n")
    except ValueError:
        pass
    # an explicit n in the call takes precedence over the n stored in the dataset
    n0 = n + 3
    xb = np.asarray(BernoulliDataset(p, n=n0).sample(n, random=False, rng=np.random.default_rng(case["seed"])))
    require(xb.shape == (n,), "ds:bernoulli-shape", f"BernoulliDataset(p, n={n0}).sample({n}) has shape {xb.shape}")
    # correlated pair
    p1, p2, rho = case["p1"], case["p2"], case["rho"]
    c_ = (1 - p1) * (1 - p2)
    a = c_ + rho * math.sqrt(p1 * p2 * c_)
    pr = [a, 1 - p2 - a, 1 - p1 - a, p1 + p2 + a - 1]
    valid = None if abs(min(pr)) <= 1e-12 else (min(pr) > 0)
    if p1 in (0.0, 1.0) or p2 in (0.0, 1.0):
        # a constant marginal: the correlation term vanishes exactly, the joint is the product
        # distribution (cells 0, 0, 1-p, p) whatever rho is - a valid distribution
        valid = True
    for random in (False, True):
        ctx = f"CorrelatedBernoullilDataset({p1!r},{p2!r},{rho!r}).sample({n}, random={random})"
        try:
            y = CorrelatedBernoullilDataset(p1, p2, rho).sample(n, random=random, rng=np.random.default_rng(case["seed"]))
            raised = False
        except ValueError:
            raised = True
        if valid is False:
            require(raised, "ds:invalid-joint-accepted", f"{ctx}: joint probabilities {pr}")
        if valid is True:
            require(not raised, "ds:valid-joint-rejected", f"{ctx}: joint probabilities {pr}")
        if not raised:
            y2 = np.asarray(CorrelatedBernoullilDataset(p1, p2, rho, n=n + 5).sample(
                n, random=random, rng=np.random.default_rng(case["seed"])))
            require(y2.shape == (2, n), "ds:correlated-shape",
                    f"{ctx}: dataset built with n={n + 5}, sample({n}) has shape {y2.shape}")
            y3 = np.asarray(CorrelatedBernoullilDataset(p1, p2, rho, n=n).sample(
                random=random, rng=np.random.default_rng(case["seed"])))
            require(y3.shape == (2, n), "ds:correlated-shape", f"{ctx}: stored n={n}: shape {y3.shape}")
            y = np.asarray(y)
            require(y.shape == (2, n) and set(np.unique(y).tolist()) <= {0, 1}, "ds:correlated-shape",
                    f"{ctx}: shape {y.shape}")
            if not random:
                require(abs(int(y[0].sum()) - n * p1) <= 3 and abs(int(y[1].sum()) - n * p2) <= 3,
                        "ds:correlated-marginals",
                        f"{ctx}: marginal counts {int(y[0].sum())}, {int(y[1].sum())} vs n*p = {n * p1!r}, {n * p2!r}")
    nonint = F(p) * n != math.floor(F(p) * n)
    return dict(nontrivial=bool(nonint), labels=["joint-valid" if valid else ("joint-invalid" if valid is False else "joint-boundary")])


PROP = Prop(
    id="C20",
    rule=("Hypothesis: NormalDataset with mu in [-50,50], sigma in [e^-3,e^3], mu_neg given or "
          "defaulted, both score directions, rates in [1e-9,1-1e-9], thresholds within 4 sigma, "
          "rate arrays, from_metrics with rates in [1e-6,1-1e-6] and supports 1..1e4, samples of "
          "1..3000 with p_pos in {0,0.3,0.5,0.97,1} and a generator seed; BernoulliDataset with p in "
          "{0,1,k/10,k/100,arbitrary}, n in 1..1e4; correlated pairs with arbitrary p1,p2,rho. "
          "Oracles: analytic inverses (fnr(threshold_at_fnr(r)) ~ r to 1e-9 relative, threshold "
          "recovered to 1e-8 sigma), scalar in -> scalar out, roc() rates == model rates at its "
          "thresholds and reproduce the requested axis, from_metrics rates at 0 and implied sizes == "
          "floor(support/rate) by exact rationals (nearest integer accepted within 1e-9), sample "
          "size / direction / reproducibility; Bernoulli successes == floor(n*p) by exact rationals; "
          "correlated pair: joint probabilities computed by the harness, min<-1e-12 -> ValueError, "
          "min>1e-12 -> shape (2,n), 0/1 values, non-random marginals within 3 of n*p_i. "
          "Non-trivial = rates not within 1e-3 of 0.5 (normal); n*p not an integer (Bernoulli)."),
    clauses=[
        Clause("normal", check_normal, strategy=_normal_cases(), quick=600, thorough=18000, quick_shards=3,
               min_nontrivial=200, doc="NormalDataset inverses, roc, from_metrics, sample"),
        Clause("bernoulli", check_bernoulli, strategy=_bern_cases(), quick=600, thorough=18000,
               quick_shards=3, min_nontrivial=200, doc="Bernoulli counts, correlated pair validity"),
    ],
)

RULE_EXTRA = ('models with integer means asked at thresholds held as uint8 / int8 / uint16 / int64 / lists / Python ints; rates down to 3e-310 (subnormal); roc() of models with |mu| up to 3e9 and sigma down to 5e-7; p within 1e-4..1e-11 of a multiple of 1/n; floor tolerance max(1e-13, 4e-16 q). The returned model is edited and the same from_metrics request repeated.')
