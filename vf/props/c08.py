"""C08 - symmetry under class swap, direction reversal and rescaling."""

from __future__ import annotations

import math

import numpy as np
from hypothesis import strategies as st

from .. import gen
from ..harness import Clause, Prop, require
from ..oracles import CONFIGS, METRICS, relevant_scores

FLIP = {"pos": "neg", "neg": "pos"}
SWAPPED = {"fpr": "fnr", "fnr": "fpr", "tpr": "tnr", "tnr": "tpr", "topr": "tonr", "tonr": "topr"}
METHODS = ("linear", "lower", "higher")


def _mk(pos, neg, ep, en, sc, ec, dt=float, ndt=None):
    from score_analysis import Scores

    return Scores(np.asarray(pos, dtype=dt), np.asarray(neg, dtype=ndt or dt), nb_easy_pos=ep,
                  nb_easy_neg=en, score_class=sc, equal_class=ec)


@st.composite
def _cases(draw, max_size=9):
    s = draw(gen.score_sets(max_size=max_size, modes=("grid", "grid", "dyadic", "int", "float", "distinct"),
                            mag=1e6))
    thr = draw(gen.shaped_thresholds(s["pos"] + s["neg"], shapes=[(), (3,), (2, 2), (5,), (0,)],
                                     mag=1e6))
    pops = [len(s["pos"]) + s["ep"], len(s["neg"]) + s["en"],
            len(s["pos"]) + len(s["neg"]) + s["ep"] + s["en"]]
    targets = draw(st.lists(gen.target_values(pops), min_size=1, max_size=4))
    thr_dtype = draw(st.sampled_from([None, None, None, "float32", "float16"]))
    if thr_dtype:
        import numpy as _np

        with _np.errstate(over="ignore"):
            thr = dict(thr, flat=[float(x) for x in _np.asarray(thr["flat"], dtype=thr_dtype).tolist()],
                       dtype=thr_dtype)
    exact = draw(st.booleans())
    if exact:
        a = draw(st.sampled_from([0.25, 0.5, 2.0, 4.0, 1024.0]))
        b = float(draw(st.integers(-100, 100)))
    else:
        a = draw(st.sampled_from([0.1, 3.0, 7.3, 1e-3, 123.456]))
        b = draw(st.floats(min_value=-1000, max_value=1000))
    huge = False
    if s["mode"] in ("float", "distinct") and s["pos"] and s["neg"] and draw(st.integers(0, 7)) == 0:
        # two scores further apart than the largest finite float (sentinels at both ends of one class)
        huge = True
        which = draw(st.sampled_from(["pos", "neg"]))
        # ... and consecutive in that class: everything else it holds lies beyond them
        pair = draw(st.sampled_from([[-1e308, 1e308], [-1.5e308, -1e308, 1e308], [-1e308, 1e308, 1.7e308],
                                     [-9e307, 9.5e307], [-1e308, 1e308, 1e308]]))
        s = dict(s, **{which: list(pair)})
        a, b, exact = draw(st.sampled_from([0.25, 0.5])), float(draw(st.integers(-100, 100))), False
    elif s["mode"] in ("float", "distinct") and s["pos"] and s["neg"] and draw(st.integers(0, 7)) == 0:
        # neighbouring floats at a power of two, one per class: the gap below differs from the gap above, and
        # a map by 3 moves the pair away from the power of two
        p2 = draw(st.sampled_from([1.0, 2.0, 0.5, 1024.0, -1.0, -4.0]))
        lo = float(np.nextafter(p2, -np.inf))
        up, dn = draw(st.sampled_from(["pos", "neg"])), None
        dn = "neg" if up == "pos" else "pos"
        far = [x for x in s[up] if abs(x - p2) > 1.0], [x for x in s[dn] if abs(x - p2) > 1.0]
        # (mode "float": the EER clauses are for separated scores, not for neighbours one ulp apart)
        s = dict(s, mode="float", **{up: far[0] + [p2], dn: far[1] + [lo]})
        a, b, exact = 3.0, 0.0, False
    return dict(s=s, thr=thr, targets=targets, a=a, b=b, exact=exact, huge=huge,
                neg_dtype=draw(st.sampled_from([None, None, "int", "float32", "int8"])))


def check(case):
    s = case["s"]
    pos, neg, ep, en = s["pos"], s["neg"], s["ep"], s["en"]
    dt = int if s["mode"] == "int" else float
    # the negatives may be held in a narrower dtype than the positives (same values)
    ndt = case.get("neg_dtype")
    def _fits(x):
        x = float(x)
        if abs(x) >= 100:
            return False
        return x == int(x) if ndt in ("int", "int8") else float(np.float32(x)) == x

    if ndt and not (dt is float and neg and all(_fits(x) for x in neg)):
        ndt = None
    shape = tuple(case["thr"]["shape"])
    thr = gen.np_array(case["thr"]["flat"], shape)
    thr_arg = thr.astype(case["thr"]["dtype"]) if case["thr"].get("dtype") else thr  # same values, narrow dtype
    rs = np.asarray(case["targets"], dtype=float)
    a, b = case["a"], case["b"]
    allv = [float(x) for x in pos + neg]
    scale = (max(map(abs, allv)) if allv else 0.0) + 1.0
    exact_map = case["exact"] and s["mode"] in ("grid", "dyadic", "int")
    npos, nneg = [-x for x in pos], [-x for x in neg]
    apos, aneg = [a * float(x) + b for x in pos], [a * float(x) + b for x in neg]
    athr = a * thr + b
    # a map that merges distinct scores through rounding changes the order type: skip its claims
    order_kept = len(set(apos + aneg)) == len(set(allv))
    # thresholds that are safely away from every score under a general map
    if allv and thr.size:
        dist = np.min(np.abs(thr.reshape(-1, 1) - np.asarray(allv)[None, :]), axis=1)
        safe = (dist > 1e-9 * scale).reshape(shape) | ~np.isfinite(thr)
        safe &= np.isfinite(thr)
    else:
        safe = np.isfinite(thr)
    # thresholds whose image under the exact map is computed without rounding
    from fractions import Fraction

    exact_thr = np.zeros(shape, dtype=bool)
    if exact_map:
        fl = [bool(math.isfinite(t) and math.isfinite(u)
                   and Fraction(a) * Fraction(t) + Fraction(b) == Fraction(u))
              for t, u in zip(thr.reshape(-1).tolist(), athr.reshape(-1).tolist())]
        exact_thr = np.asarray(fl, dtype=bool).reshape(shape)
        exact_thr |= safe
    for sc, ec in CONFIGS:
        ctx = f"config={sc}/{ec}"
        o = _mk(pos, neg, ep, en, sc, ec, dt, ndt)
        cm = o.cm(thr_arg).matrix
        # --- swap
        sw = o.swap()
        require(np.array_equal(sw.cm(thr_arg).matrix, cm[..., ::-1, ::-1]), "sym:swap-cm",
                lambda: f"{ctx}: swap().cm != cm reversed at {thr.tolist()}")
        if thr.size:
            for m1, m2 in SWAPPED.items():
                require(np.array_equal(np.asarray(getattr(o, m1)(thr)),
                                       np.asarray(getattr(sw, m2)(thr)), equal_nan=True),
                        "sym:swap-rates", f"{ctx}: {m1} vs swapped {m2}")
        require(sw.swap() == o, "sym:swap-involution", ctx)
        # --- negation with flipped score_class
        ng = _mk(npos, nneg, ep, en, FLIP[sc], ec, dt, ndt)
        require(np.array_equal(ng.cm(-thr_arg).matrix, cm), "sym:negation-cm",
                lambda: f"{ctx}: negated object at -t differs at t={thr.tolist()}")
        # --- affine
        af = _mk(apos, aneg, ep, en, sc, ec)
        cma = af.cm(athr).matrix
        if not order_kept:
            pass
        elif exact_map:
            require(np.array_equal(cma[exact_thr], cm[exact_thr]), "sym:affine-cm",
                    f"{ctx}: exact map {a}*s+{b}")
        else:
            require(np.array_equal(cma[safe], cm[safe]), "sym:affine-cm",
                    f"{ctx}: general map {a}*s+{b}")
        if pos and neg:
            a0, a1, a2 = float(o.auc()), float(ng.auc()), float(af.auc())
            require(abs(a0 - a1) <= 1e-12, "sym:negation-auc", f"{ctx}: {a0!r} vs {a1!r}")
            require(not order_kept or ((a0 == a2) if exact_map else abs(a0 - a2) <= 1e-12),
                    "sym:affine-auc", f"{ctx}: {a0!r} vs {a2!r}")
        for m in METRICS:
            if not relevant_scores(m, pos, neg):
                continue
            for meth in METHODS:
                t0 = np.asarray(getattr(o, "threshold_at_" + m)(rs, method=meth), dtype=float)
                ta = np.asarray(getattr(af, "threshold_at_" + m)(rs, method=meth), dtype=float)
                tol = 1e-9 * (abs(a) * scale + abs(b))
                require(bool(np.all(np.abs(ta - (a * t0 + b)) <= tol)), "sym:affine-threshold",
                        lambda: f"{ctx} {m}/{meth} r={rs.tolist()}: {t0.tolist()} -> {ta.tolist()} "
                                f"under {a}*s+{b}")
                if meth == "linear":
                    tn = np.asarray(getattr(ng, "threshold_at_" + m)(rs), dtype=float)
                    require(bool(np.all(np.abs(tn + t0) <= 1e-9 * scale)), "sym:negation-threshold",
                            lambda: f"{ctx} {m} r={rs.tolist()}: {t0.tolist()} vs negated object "
                                    f"{tn.tolist()}")
        # EER for tie-free inputs
        if s["mode"] == "distinct" and pos and neg and len(pos) + len(neg) <= 10:
            t, e = o.eer()
            ta_, ea_ = af.eer()
            tn_, en_ = ng.eer()
            rng = max(allv) - min(allv) + 1e-3
            require(abs(e - ea_) <= 1e-8 and abs(ta_ - (a * t + b)) <= 1e-6 * abs(a) * rng,
                    "sym:affine-eer", f"{ctx}: ({t!r},{e!r}) -> ({ta_!r},{ea_!r})")
            require(abs(e - en_) <= 1e-8 and abs(tn_ + t) <= 1e-6 * rng, "sym:negation-eer",
                    f"{ctx}: ({t!r},{e!r}) vs ({tn_!r},{en_!r})")
    sym0 = sorted(allv) == sorted(-x for x in allv)
    nontrivial = bool(pos) and bool(neg) and not sym0 and not (a == 1 and b == 0)
    labels = [f"mode:{s['mode']}", "exact-map" if exact_map else "general-map"]
    if not order_kept:
        labels.append("map-merges-scores(skipped)")
    if not pos or not neg:
        labels.append("empty-class")
    return dict(nontrivial=nontrivial, labels=labels)


# ------------------------------------------------------------------ GroupScores.swap
@st.composite
def _group_cases(draw):
    s = draw(gen.score_sets(max_size=8, modes=("grid", "dyadic", "distinct"), easy=False))
    g = st.sampled_from(["a", "b", "c_d"])
    pg = draw(st.lists(g, min_size=len(s["pos"]), max_size=len(s["pos"])))
    ng = draw(st.lists(g, min_size=len(s["neg"]), max_size=len(s["neg"])))
    thr = draw(gen.threshold_values(s["pos"] + s["neg"], 3))
    present = sorted(set(pg) | set(ng))
    # explicitly given group names are "used as is and not sorted"
    given = draw(st.one_of(st.none(), st.permutations(present))) if present else None
    if given is not None and len(given) >= 2 and draw(st.booleans()):
        given = list(given)[: draw(st.integers(1, len(given) - 1))]  # only some of the groups are of interest
    return dict(s=s, pg=pg, ng=ng, thr=thr, touch=draw(st.sampled_from(["none", "getitem", "group_cm"])),
                given=None if given is None else list(given))


def check_group(case):
    from score_analysis import GroupScores

    s = case["s"]
    thr = np.asarray(case["thr"], dtype=float)
    if not (case["pg"] or case["ng"]):
        return dict(nontrivial=False, labels=["empty"])
    for sc, ec in CONFIGS:
        g = GroupScores(np.asarray(s["pos"], dtype=float), np.asarray(s["neg"], dtype=float),
                        pos_groups=np.asarray(case["pg"], dtype=str),
                        neg_groups=np.asarray(case["ng"], dtype=str),
                        score_class=sc, equal_class=ec,
                        **(dict(group_names=np.asarray(case["given"], dtype=str)) if case.get("given") else {}))
        # per-group queries before swapping fill the object's lazy per-group cache
        if case.get("touch") == "getitem":
            for name in g.groups:
                g[name]
        elif case.get("touch") == "group_cm":
            g.group_cm(thr)
        sw = g.swap()
        require(isinstance(sw, GroupScores), "sym:group-swap-type", str(type(sw)))
        require(np.array_equal(sw.cm(thr).matrix, g.cm(thr).matrix[..., ::-1, ::-1]),
                "sym:group-swap-cm", f"config={sc}/{ec}")
        if case.get("given"):
            # swap() derives the name list afresh: rows are matched by name
            require(set(g.groups) <= set(sw.groups), "sym:group-swap-names",
                    f"{list(sw.groups)} vs {list(g.groups)}")
            rows = [list(sw.groups).index(nm) for nm in g.groups]
        else:
            require(list(sw.groups) == list(g.groups), "sym:group-swap-names",
                    f"{list(sw.groups)} vs {list(g.groups)}")
            rows = list(range(len(g.groups)))
        require(np.array_equal(sw.group_cm(thr).matrix[rows], g.group_cm(thr).matrix[..., ::-1, ::-1]),
                "sym:group-swap-group-cm", f"config={sc}/{ec}")
        for nm in g.groups:
            require(np.array_equal(sw[nm].cm(thr).matrix, g[nm].cm(thr).matrix[..., ::-1, ::-1]),
                    "sym:group-swap-group-cm", f"config={sc}/{ec} group {nm!r} by indexing")
        before = sorted(zip(g.pos.tolist(), g.pos_groups.tolist()))
        after = sorted(zip(sw.neg.tolist(), sw.neg_groups.tolist()))
        require(before == after, "sym:group-swap-labels", f"{before} vs {after}")
    return dict(nontrivial=bool(s["pos"]) and bool(s["neg"]) and len(set(case["pg"] + case["ng"])) > 1,
                labels=[])


# ---------------------------------------------------------------------- swap of scores wider than a double
@st.composite
def _wide_cases(draw):
    n, m = draw(st.integers(1, 6)), draw(st.integers(1, 6))
    return dict(kind=draw(st.sampled_from(["int64", "uint64", "longdouble"])),
                kpos=draw(st.lists(st.integers(-8, 8), min_size=n, max_size=n)),
                kneg=draw(st.lists(st.integers(-8, 8), min_size=m, max_size=m)),
                ep=draw(st.sampled_from([0, 0, 3])), en=draw(st.sampled_from([0, 0, 2])))


def check_wide(case):
    """Scores in a type that resolves more than a double (64-bit integers beyond 2^53, extended precision):
    the swapped object must count the very same scores."""
    from score_analysis import Scores

    kind = case["kind"]
    if kind == "longdouble" and np.finfo(np.longdouble).nmant <= 52:
        return dict(nontrivial=False, labels=["no-extended-precision"])

    def arr(ks):
        if kind == "int64":
            return np.int64(2**53) + np.asarray(ks, dtype=np.int64)
        if kind == "uint64":
            return np.uint64(2**63) + np.asarray([k + 8 for k in ks], dtype=np.uint64)
        return np.longdouble(1) + np.asarray(ks, dtype=np.longdouble) * np.longdouble(2) ** -60

    pos, neg = arr(case["kpos"]), arr(case["kneg"])
    thr = np.unique(np.concatenate([pos, neg]))  # thresholds at the scores, in the scores' own type
    for sc, ec in CONFIGS:
        o = Scores(pos, neg, nb_easy_pos=case["ep"], nb_easy_neg=case["en"], score_class=sc, equal_class=ec)
        sw = o.swap()
        cm, cms = o.cm(thr).matrix, sw.cm(thr).matrix
        require(np.array_equal(cms, cm[..., ::-1, ::-1]), "sym:swap-cm",
                lambda: f"config={sc}/{ec} {kind} scores pos-offsets={case['kpos']} neg-offsets={case['kneg']}: swap().cm "
                        f"{cms.tolist()} vs cm with both axes reversed {cm[..., ::-1, ::-1].tolist()}")
        for m1, m2 in SWAPPED.items():
            require(np.array_equal(np.asarray(getattr(o, m1)(thr)), np.asarray(getattr(sw, m2)(thr)), equal_nan=True),
                    "sym:swap-rates", f"config={sc}/{ec} {kind} scores: {m1} vs swapped {m2}")
        require(sw.swap() == o, "sym:swap-involution", f"config={sc}/{ec} {kind}")
    return dict(nontrivial=len(set(case["kpos"]) | set(case["kneg"])) >= 3, labels=[f"wide:{kind}"])


def _eer_affine_cases(tier):
    for arr in ("separated", "separated-wide", "interleaved", "one-exchange"):
        for a in (1.0, 2.0, 0.5, 4.0):
            for b in (0.0, 512.0, 1024.0, 4096.0, 65536.0, -4096.0):
                yield dict(arr=arr, a=a, b=b)


def check_eer_affine(case):
    """EER threshold under exact (dyadic) increasing affine maps whose offset is large against the gap
    between the classes (round 10, c08-s: a magnitude-relative closeness test inside the separated-classes
    shortcut): thresholds map by the same map, measured against the spread of the scores, EER unchanged."""
    from score_analysis import Scores

    arr, a, b = case["arr"], case["a"], case["b"]
    q = 2.0 ** -10
    if arr == "separated":
        neg = [q * (3 * i) for i in range(9)]
        pos = [q * (3 * 8 + 10 + 5 * i) for i in range(8)]  # gap of 10 q ~ 0.01
    elif arr == "separated-wide":
        neg = [q * (7 * i) for i in range(6)]
        pos = [q * (200 + 11 * i) for i in range(7)]
    elif arr == "interleaved":
        neg = [q * (4 * i) for i in range(10)]
        pos = [q * (4 * i + 14 + (i % 3)) for i in range(10)]
    else:
        neg = [q * (3 * i) for i in range(9)] + [q * 40]
        pos = [q * 30] + [q * (36 + 5 * i) for i in range(8)]
    allv = pos + neg
    rng = max(allv) - min(allv)
    ap, an = [a * x + b for x in pos], [a * x + b for x in neg]
    for sc, ec in CONFIGS:
        if sc == "neg":  # the same arrangement read the other way round
            p_, n_, ap_, an_ = neg, pos, an, ap
        else:
            p_, n_, ap_, an_ = pos, neg, ap, an
        o = Scores(p_, n_, score_class=sc, equal_class=ec)
        af = Scores(ap_, an_, score_class=sc, equal_class=ec)
        t, e = o.eer()
        ta, ea = af.eer()
        ctx = f"{arr} pos={p_} neg={n_} config={sc}/{ec} map {a}*s+{b}"
        require(abs(float(e) - float(ea)) <= 1e-8, "sym:affine-eer", lambda: f"{ctx}: EER {e!r} -> {ea!r}")
        require(abs(float(ta) - (a * float(t) + b)) <= 1e-6 * a * rng, "sym:affine-eer",
                lambda: f"{ctx}: EER threshold {t!r} -> {ta!r}, the map gives {a * float(t) + b!r} "
                        f"(spread of the scores {rng!r})")
    return dict(nontrivial=b != 0 or a != 1, labels=[f"arr:{arr}", f"b:{b}"])


PROP = Prop(
    id="C08",
    rule=("Hypothesis: score sets (ties, int dtype, floats |x|<=1e6, tie-free, empty classes, easy "
          "counts 0..200) x shaped thresholds x 1-4 targets x an affine map that is either exact "
          "(a power of two, integer b, dyadic scores: commutes with rounding) or general (a in "
          "{0.1,3,7.3,1e-3,123.456}, real b); all 4 configs per case. Oracles are pairs of "
          "executions: swap() reverses every confusion matrix and exchanges FPR/TPR/TOPR with "
          "FNR/TNR/TONR (exact), is an involution, and (GroupScores) keeps labels attached; negated "
          "scores with flipped score_class give equal matrices at -t (exact) and negated linear "
          "thresholds (1e-9*scale); affine maps give equal matrices (exact maps: everywhere; "
          "general: at thresholds >1e-9*scale from a score), mapped thresholds for all 3 methods, "
          "equal AUC, and for tie-free inputs equal EER. Non-trivial = both classes non-empty, "
          "score set not symmetric about 0, map not the identity."),
    clauses=[
        Clause("symmetries", check, strategy=lambda tier: _cases(9 if tier == "quick" else 25), quick=250, thorough=7200, quick_shards=4,
               min_nontrivial=100, doc="swap / negation / affine metamorphic pairs"),
        Clause("eer_affine", check_eer_affine, kind="enum", cases=_eer_affine_cases, quick_shards=4, shards=4,
               min_nontrivial=40, doc="EER threshold under exact affine maps with offsets 5e2..7e4 against a class gap of 0.01"),
        Clause("swap_wide", check_wide, strategy=_wide_cases(), quick=150, thorough=2000, quick_shards=2,
               min_nontrivial=50, doc="swap() of int64/uint64 scores beyond 2^53 and of long-double scores 2^-60 apart"),
        Clause("group_swap", check_group, strategy=_group_cases(), quick=200, thorough=4800,
               shards=4, min_nontrivial=20, doc="GroupScores.swap()"),
    ],
    assumptions=["threshold equivariance under negation only for method='linear'",
                 "EER equivariance only for tie-free inputs (see C06)"],
)

RULE_EXTRA = ('clause eer_affine: separated / interleaved dyadic classes with a gap of 0.01 under exact maps a*s+b, b up to 65536 - EER threshold measured against the spread of the scores; thresholds held in float32/float16; per-group queries before swap() (GroupScores). A class made of the two consecutive scores -1e308 / 1e308; a power of two and its lower neighbour in different classes under 3*s; clause swap_wide (64-bit integer scores beyond 2^53, long doubles).')
