"""
CLI:  ./check CNN [--tier quick|thorough] [--seed N] [--replay FILE] [--clause NAME]
              [--jobs J] [--examples-scale X]

Environment: VERIF_SEED, VERIF_TIER (same meaning as the options), VERIF_REPO (tree to
test, default /repo), VERIF_JOBS.
"""

from __future__ import annotations

import argparse
import json
import os
import sys
import time
from collections import Counter
from concurrent.futures import ProcessPoolExecutor, as_completed

from . import harness as H

LEVEL = "exploration"


def _parse(argv):
    ap = argparse.ArgumentParser(prog="check")
    ap.add_argument("prop")
    ap.add_argument("--tier", default=os.environ.get("VERIF_TIER") or "quick",
                    choices=["quick", "thorough"])
    ap.add_argument("--seed", type=int, default=None)
    ap.add_argument("--replay", default=None)
    ap.add_argument("--clause", action="append", default=None)
    ap.add_argument("--jobs", type=int, default=int(os.environ.get("VERIF_JOBS", "0")) or None)
    ap.add_argument("--no-evidence", action="store_true")
    a = ap.parse_args(argv)
    if a.seed is None:
        try:
            a.seed = int(os.environ.get("VERIF_SEED", "0") or "0")
        except ValueError:
            a.seed = 0
    return a


def _replay(prop, path, findings) -> int:
    d = H.load_case_file(path)
    clause = next((c for c in prop.clauses if c.name == d["clause"]), None)
    if clause is None:
        print(f"HARNESS-ERROR unknown clause {d['clause']} in {path}")
        return 2
    try:
        H.run_check(prop, clause, d["case"], [], None)
    except H.Violation as v:
        f = H.match_finding(findings, prop, clause.name, v.sig, d["case"])
        if f is not None:
            print(f"KNOWN-FINDING: property={prop.id} {f.text}")
            return 0
        print(f"{v.sig}: {v.msg}"[:2000])
        print(f"VIOLATION property={prop.id} replay={path}")
        return 1
    print(f"replay {path}: property held")
    return 0


def main(argv=None) -> int:
    a = _parse(argv if argv is not None else sys.argv[1:])
    t0 = time.time()
    try:
        H.import_cut()
        from . import props

        prop = props.load(a.prop)
        findings = H.load_findings()
    except Exception as e:  # noqa
        import traceback

        traceback.print_exc()
        print(f"HARNESS-ERROR {type(e).__name__}: {e}")
        return 2

    if a.replay:
        try:
            return _replay(prop, a.replay, findings)
        except Exception as e:  # noqa
            import traceback

            traceback.print_exc()
            print(f"HARNESS-ERROR {type(e).__name__}: {e}")
            return 2

    violations = []  # (clause, viol dict)
    errors = []
    known_seen = []

    # 1. known findings: replay the stored reproducers, print KNOWN-FINDING lines.
    for f in findings:
        if f.prop != prop.id:
            continue
        still = None
        if f.repro:
            p = os.path.join(H.VERIF_DIR, f.repro)
            try:
                d = H.load_case_file(p)
                clause = next(c for c in prop.clauses if c.name == d["clause"])
                try:
                    H.run_check(prop, clause, d["case"], [], None)
                    still = False
                except H.Violation:
                    still = True
            except Exception as e:  # noqa
                errors.append(f"known-finding reproducer {f.repro}: {type(e).__name__}: {e}")
        known_seen.append(dict(pred=f.pred, clause=f.clause, sig=f.sig, text=f.text,
                               reproducer_still_fails=still))
        print(f"KNOWN-FINDING: property={prop.id} {f.text}"
              + ("" if still in (True, None) else " [reproducer no longer fails]"))

    # 2. corpus replay (plain regression checks, no Hypothesis)
    corpus_n = 0
    clause_by_name = {c.name: c for c in prop.clauses}
    corpus_rec = H.Recorder()
    for p in H.corpus_files(prop.id):
        try:
            d = H.load_case_file(p)
            clause = clause_by_name.get(d["clause"])
            if clause is None:
                continue
            corpus_n += 1
            try:
                H.run_check(prop, clause, d["case"], findings, corpus_rec)
            except H.Violation as v:
                violations.append((clause.name, dict(case=d["case"], sig=v.sig, msg=v.msg),
                                   os.path.relpath(p, H.VERIF_DIR)))
        except Exception as e:  # noqa
            errors.append(f"corpus {p}: {type(e).__name__}: {e}")

    # 3. search
    tasks = []
    for c in prop.clauses:
        if a.clause and c.name not in a.clause:
            continue
        ns = c.quick_shards if a.tier == "quick" else c.shards
        for s in range(ns):
            tasks.append((prop.id, c.name, a.tier, a.seed, s, ns))
    jobs = a.jobs or min(16, os.cpu_count() or 1, max(1, len(tasks)))
    results = []
    # second engine (thorough tier): atheris sub-processes run alongside the pool
    fuzz_procs = []
    if a.tier == "thorough":
        import subprocess
        import tempfile

        for c in prop.clauses:
            if c.fuzz and c.kind == "given" and (not a.clause or c.name in a.clause):
                sf = tempfile.NamedTemporaryFile(prefix="vf_fuzzstats_", suffix=".json", delete=False)
                sf.close()
                pr = subprocess.Popen([sys.executable, "-m", "vf.fuzz_atheris", prop.id, c.name,
                                       "--runs", str(c.fuzz), "--seed", str(a.seed), "--stats", sf.name],
                                      cwd=H.VERIF_DIR, stdout=subprocess.DEVNULL, stderr=subprocess.DEVNULL)
                fuzz_procs.append((c.name, pr, sf.name))
    if jobs == 1:
        for t in tasks:
            results.append(H.run_task(*t))
    else:
        import multiprocessing as mp

        ctx = mp.get_context("spawn")
        with ProcessPoolExecutor(max_workers=jobs, mp_context=ctx) as ex:
            futs = {ex.submit(H.run_task, *t): t for t in tasks}
            for fu in as_completed(futs):
                try:
                    results.append(fu.result())
                except Exception as e:  # noqa
                    errors.append(f"task {futs[fu][1:]}: {type(e).__name__}: {e}")
    results.sort(key=lambda r: (r["clause"], r["shard"]))
    fuzz_report = {}
    for cname, pr, sfile in fuzz_procs:
        try:
            frc = pr.wait(timeout=900)
        except Exception:  # noqa
            pr.kill()
            frc = -9
        try:
            st_ = json.load(open(sfile))
        except Exception:  # noqa
            st_ = {}
        try:
            os.remove(sfile)
        except OSError:
            pass
        st_["exit"] = frc
        if frc == 77 and st_.get("violation"):
            v = st_["violation"]
            violations.append((cname, dict(case=None, sig=v["sig"], msg="[atheris] " + v["msg"]), v["replay"]))
        elif frc == 3:
            st_["status"] = "skipped: atheris not available (inconclusive)"
        elif frc not in (0, 77):
            st_["status"] = f"fuzz stage ended with exit {frc} (inconclusive, not a violation)"
        else:
            st_["status"] = "ok"
        fuzz_report[cname] = st_
    if fuzz_procs:
        import glob
        import shutil

        for d_ in glob.glob(os.path.join(H.VERIF_DIR, ".deps", "vf_fuzz_*")):
            shutil.rmtree(d_, ignore_errors=True)

    # 4. merge
    evaluations = corpus_rec.evaluations
    nontrivial = set(corpus_rec.nontrivial)
    labels = Counter(corpus_rec.labels)
    excluded = Counter(corpus_rec.excluded_known)
    per_clause = {}
    samples = []
    for r in results:
        evaluations += r["evaluations"]
        nontrivial |= r["nontrivial"]
        labels.update(r["labels"])
        excluded.update(r["excluded_known"])
        pc = per_clause.setdefault(r["clause"], dict(evaluations=0, nontrivial=set(), shards=0,
                                                     wall_s=0.0))
        pc["evaluations"] += r["evaluations"]
        pc["nontrivial"] |= r["nontrivial"]
        pc["shards"] += 1
        pc["wall_s"] = round(pc["wall_s"] + r["wall_s"], 2)
        if r["shard"] == 0:
            for s in r["samples"][:2]:
                samples.append(dict(clause=r["clause"], case=s))
        if r["error"]:
            errors.append(f"clause {r['clause']} shard {r['shard']}:\n{r['error']}")
        if r["violation"]:
            violations.append((r["clause"], r["violation"], None))

    # one violation per (clause, signature)
    seen = set()
    uniq = []
    for cl, v, path in violations:
        key = (cl, v["sig"])
        if key in seen:
            continue
        seen.add(key)
        uniq.append((cl, v, path))
    violations = uniq

    # vacuity guards (only meaningful when nothing failed)
    if not violations and not errors:
        for c in prop.clauses:
            if a.clause and c.name not in a.clause:
                continue
            pc = per_clause.get(c.name)
            if pc is None or len(pc["nontrivial"]) < c.min_nontrivial:
                got = 0 if pc is None else len(pc["nontrivial"])
                errors.append(f"vacuity guard: clause {c.name} produced {got} distinct "
                              f"non-trivial cases (< {c.min_nontrivial})")

    rc = 0
    for cl, v, path in violations:
        if path is None:
            path = H.write_replay(prop.id, cl, v)
        print(f"{cl}: {v['sig']}: {v['msg']}"[:1500])
        print(f"VIOLATION property={prop.id} replay={path}")
        rc = 1
    if errors and rc == 0:
        for e in errors:
            print("HARNESS-ERROR " + e)
        rc = 2
    elif errors:
        for e in errors:
            print("HARNESS-NOTE " + e[:500])

    wall = time.time() - t0
    coverage = dict(
        evaluations=int(evaluations),
        distinct_nontrivial=int(len(nontrivial)),
        rule=prop.rule,
        samples=H.sanitize(samples[:24]) or [],
        per_clause={k: dict(evaluations=v["evaluations"],
                            distinct_nontrivial=len(v["nontrivial"]),
                            shards=v["shards"], cpu_s=v["wall_s"],
                            kind=clause_by_name[k].kind,
                            doc=clause_by_name[k].doc)
                    for k, v in sorted(per_clause.items())},
        labels=dict(sorted(labels.items())),
        excluded_known=dict(excluded),
        known_findings=known_seen,
        corpus_replayed=corpus_n,
        exhaustive=False,
        exhaustive_clauses=[c.name for c in prop.clauses if c.kind == "enum"
                            and c.name in per_clause],
        jobs=jobs,
        repo=H.REPO_DIR,
    )
    if fuzz_report:
        coverage["atheris"] = fuzz_report
        evaluations_f = sum(int(v.get("executions", 0)) for v in fuzz_report.values())
        coverage["atheris_executions"] = evaluations_f
    ev = dict(
        property_id=prop.id, tier=a.tier, seed=int(a.seed), level=LEVEL, coverage=coverage,
        assumptions=prop.assumptions, wall_s=round(wall, 2), violations=len(violations),
    )
    if not a.no_evidence and not a.clause:
        try:
            _write_evidence(prop.id, ev)
        except Exception as e:  # noqa
            print(f"HARNESS-ERROR evidence: {type(e).__name__}: {e}")
            if rc == 0:
                rc = 2
    print(f"{prop.id} tier={a.tier} seed={a.seed}: evaluations={evaluations} "
          f"distinct_nontrivial={len(nontrivial)} violations={len(violations)} "
          f"excluded_known={sum(excluded.values())} wall={wall:.1f}s exit={rc}")
    return rc


def _write_evidence(pid, ev):
    d = os.path.join(H.VERIF_DIR, "evidence")
    os.makedirs(d, exist_ok=True)
    path = os.path.join(d, f"{pid}.json")
    txt = json.dumps(ev, indent=1, allow_nan=False, ensure_ascii=False)
    schema_path = "/root/.vp/EVIDENCE.schema.json"
    if not os.path.exists(schema_path):
        schema_path = os.path.join(H.VERIF_DIR, "schemas", "EVIDENCE.schema.json")
    with open(path, "w", encoding="utf-8") as fh:
        fh.write(txt + "\n")
    if os.path.exists(schema_path) and ev["violations"] == 0:
        try:
            import jsonschema
        except ImportError:
            return
        jsonschema.validate(json.loads(txt), json.load(open(schema_path)))


if __name__ == "__main__":
    sys.exit(main())
