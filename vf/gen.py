"""
Shared Hypothesis strategies.  Everything is *constructed* (sizes, then values, then
arrangement), nothing is filtered.  All strategies return plain-JSON values.
"""

from __future__ import annotations

import math

from hypothesis import strategies as st

CONFIG = st.sampled_from([["pos", "pos"], ["pos", "neg"], ["neg", "pos"], ["neg", "neg"]])

ALL_MODES = ("grid", "grid", "dyadic", "float", "ulp", "int", "distinct")


def _ulp(x: float, k: int) -> float:
    d = math.inf if k > 0 else -math.inf
    for _ in range(abs(k)):
        x = math.nextafter(x, d)
    return x


@st.composite
def values(draw, n: int, mode: str, mag: float = 1e6):
    """n score values in the given value mode (list of float, or int for mode 'int')."""
    if n == 0:
        return []
    if mode == "grid":
        span = draw(st.sampled_from([2, 4, 8]))
        return [k / 2 for k in draw(st.lists(st.integers(-span, span), min_size=n, max_size=n))]
    if mode == "dyadic":
        return [k / 64 for k in draw(st.lists(st.integers(-640, 640), min_size=n, max_size=n))]
    if mode == "int":
        return draw(st.lists(st.integers(-5, 5), min_size=n, max_size=n))
    if mode == "uint":  # quantised scores, stored as uint8 / uint16 / bool (see build_scores)
        lo, hi = draw(st.sampled_from([(0, 1), (0, 9), (0, 255), (200, 255)]))
        return draw(st.lists(st.integers(lo, hi), min_size=n, max_size=n))
    if mode == "float":
        fl = st.floats(min_value=-mag, max_value=mag, allow_nan=False, allow_infinity=False,
                       allow_subnormal=False)
        return [float(x) + 0.0 for x in draw(st.lists(fl, min_size=n, max_size=n))]
    if mode == "ulp":
        nb = draw(st.integers(1, 3))
        pow2 = st.tuples(st.sampled_from([-1.0, 1.0]), st.integers(-8, 10)).map(lambda sk: sk[0] * 2.0 ** sk[1])
        base = draw(st.lists(st.one_of(st.floats(min_value=-mag, max_value=mag, allow_nan=False,
                                                 allow_infinity=False, allow_subnormal=False),
                                       pow2, st.just(0.0)),
                             min_size=nb, max_size=nb))
        picks = draw(st.lists(st.tuples(st.integers(0, nb - 1), st.integers(-2, 2)),
                              min_size=n, max_size=n))
        return [_ulp(float(base[i]), k) + 0.0 for i, k in picks]
    if mode == "distinct":
        ks = draw(st.lists(st.integers(-2000, 2000), min_size=n, max_size=n, unique=True))
        a = draw(st.sampled_from([1.0, 0.5, 0.25, 3.0, 0.1, 7.3, 1000.0, 1e-3, 1e-6]))
        # the fine scale only around 0, so that the separation stays far above one ulp
        b = draw(st.sampled_from([0.0, 1.0, -17.5, 0.3, 1234.5])) if a >= 1e-3 else 0.0
        out = [a * k + b for k in ks]
        return out
    raise ValueError(mode)


ARRANGEMENTS = ("mixed", "mixed", "mixed", "separated", "inverted", "touch", "touch_inv",
                "shared")


def arrange(draw, vals, n, m, arrangement, distinct=False):
    """Splits n+m values into (pos, neg) according to the arrangement."""
    if arrangement == "mixed" or n == 0 or m == 0:
        return list(vals[:n]), list(vals[n:])
    s = sorted(vals)
    if arrangement in ("separated", "touch"):
        neg, pos = s[:m], s[m:]
        if arrangement == "touch" and not distinct:
            pos[0] = neg[-1]
    elif arrangement in ("inverted", "touch_inv"):
        pos, neg = s[:n], s[n:]
        if arrangement == "touch_inv" and not distinct:
            neg[0] = pos[-1]
    else:  # shared: copy some positive values into the negatives
        pos, neg = list(vals[:n]), list(vals[n:])
        if not distinct:
            for j in range(len(neg)):
                if draw(st.booleans()):
                    neg[j] = pos[draw(st.integers(0, n - 1))]
    return draw(st.permutations(pos)), draw(st.permutations(neg))


EASY = st.one_of(st.just(0), st.just(0), st.integers(1, 5), st.integers(6, 200))


def build_scores(s, which):
    """The score container of a generated score set: float64 / float32 / int array or Python list."""
    import numpy as np

    vals = s[which]
    c = s.get("container", "f64")
    if s["mode"] == "uint" and c != "list":
        if max(list(s["pos"]) + list(s["neg"]) + [0]) <= 1 and c in ("f32", "pos-int"):
            return np.asarray(vals, dtype=bool)
        return np.asarray(vals, dtype=np.uint16 if c in ("neg-f32", "neg-int") else np.uint8)
    if c in ("neg-int", "pos-int", "neg-f32"):
        # mixed containers: one class in a narrower dtype than the other
        cls, kind = c.split("-")
        if which == cls:
            return np.asarray(vals, dtype=int if kind == "int" else np.float32)
        return np.asarray(vals, dtype=float)
    if c == "swapped":  # the same values in non-native byte order (as read from a binary file)
        return np.asarray(vals, dtype=np.dtype(int if s["mode"] == "int" else float).newbyteorder("S"))
    if c in ("int8", "int16", "int32"):  # narrow signed integers (values generated inside the range)
        return np.asarray(vals, dtype=c)
    if c == "list":
        return list(vals)
    if c == "series":  # a pandas column whose index labels are not the positions
        import pandas as pd

        dt = int if s["mode"] == "int" else float
        return pd.Series(np.asarray(vals, dtype=dt), index=list(range(len(vals)))[::-1])
    if c == "f128":  # extended precision floats (80-bit on x86); the values are float64 images
        return np.asarray(vals, dtype=np.longdouble)
    if s["mode"] == "int":
        return np.asarray(vals, dtype=int)
    if c == "f32":
        return np.asarray(vals, dtype=np.float32)
    return np.asarray(vals, dtype=float)


@st.composite
def score_sets(draw, min_pos=0, min_neg=0, max_size=12, modes=ALL_MODES, mag=1e6, easy=True,
               arrangements=ARRANGEMENTS, max_easy=200, containers=("f64",), huge_easy=False):
    """
    dict(pos, neg, ep, en, mode, arr).  'distinct' mode guarantees that no value repeats
    within or across the classes (minimum separation a*1).
    """
    mode = draw(st.sampled_from(modes))
    n = draw(st.integers(min_pos, max_size))
    m = draw(st.integers(min_neg, max_size))
    vals = draw(values(n + m, mode, mag))
    arr = draw(st.sampled_from(arrangements))
    pos, neg = arrange(draw, vals, n, m, arr, distinct=(mode == "distinct"))
    if easy:
        ez = st.one_of(st.just(0), st.just(0), st.integers(1, 5), st.integers(6, max_easy))
        if huge_easy:  # counts beyond 32-bit range
            ez = st.one_of(ez, ez, ez, st.sampled_from([2**31 - 6, 2**31, 3_000_000_000, 2**40]
                                                       + ([2**53 + 3, 2**55 + 5] if huge_easy == "beyond-float" else [])))
        ep, en = draw(ez), draw(ez)
    else:
        ep = en = 0
    container = draw(st.sampled_from(containers))
    if container in ("neg-int", "pos-int", "neg-f32"):
        import numpy as np

        cls, kind = container.split("-")
        if kind == "f32" and mode == "distinct":
            container = "f64"
        elif mode in ("int", "uint"):
            pass  # integer modes choose their own dtype in build_scores
        elif kind == "int":
            if mode in ("float", "ulp"):
                container = "f64"
            else:
                npos = [float(math.floor(v)) for v in pos] if cls == "pos" else list(pos)
                nneg = [float(math.floor(v)) for v in neg] if cls == "neg" else list(neg)
                if mode == "distinct" and len(set(npos + nneg)) != len(npos + nneg):
                    container = "f64"  # flooring would create ties
                else:
                    pos, neg = npos, nneg
        else:
            nneg = [float(np.float32(v)) for v in neg]
            if all(math.isfinite(v) for v in nneg):
                neg = nneg
            else:
                container = "f64"
    if container == "f32":
        if mode in ("grid", "dyadic", "int", "uint"):
            pass  # exactly representable
        elif mode in ("float", "ulp"):
            import numpy as np

            with np.errstate(over="ignore"):
                p32 = [float(np.float32(v)) for v in pos]
                n32 = [float(np.float32(v)) for v in neg]
            if all(math.isfinite(v) for v in p32 + n32):
                pos, neg = p32, n32
            else:
                container = "f64"  # beyond the single-precision range: keep the float64 values
        else:
            container = "f64"  # 'distinct' must stay distinct
    return dict(pos=list(pos), neg=list(neg), ep=ep, en=en, mode=mode, arr=arr, container=container)


@st.composite
def threshold_values(draw, scores, k: int, mag: float = 1e6, allow_inf=True):
    """k thresholds: scores, ulp neighbours, midpoints, outside, +-inf, arbitrary."""
    out = []
    fl = [float(x) for x in scores]
    kinds = ["float", "outside"]
    if fl:
        kinds += ["score", "score", "ulp", "ulp", "mid"]
    if allow_inf:
        kinds += ["inf"]
    for _ in range(k):
        kind = draw(st.sampled_from(kinds))
        if kind == "score":
            t = fl[draw(st.integers(0, len(fl) - 1))]
        elif kind == "ulp":
            t = _ulp(fl[draw(st.integers(0, len(fl) - 1))], draw(st.sampled_from([-1, 1])))
        elif kind == "mid":
            a = fl[draw(st.integers(0, len(fl) - 1))]
            b = fl[draw(st.integers(0, len(fl) - 1))]
            t = a / 2 + b / 2
        elif kind == "outside":
            if fl:
                t = (min(fl) - 1.0) if draw(st.booleans()) else (max(fl) + 1.0)
            else:
                t = 0.0
        elif kind == "inf":
            t = math.inf if draw(st.booleans()) else -math.inf
        else:
            t = draw(st.floats(min_value=-mag, max_value=mag, allow_nan=False,
                               allow_infinity=False))
        out.append(float(t) + 0.0)
    return out


SHAPES = [(), (), (1,), (2,), (3,), (5,), (2, 2), (1, 3), (3, 1), (2, 1, 2), (1, 1, 1),
          (0,), (2, 0), (0, 3), (2, 0, 2), (1, 0, 1)]
SHAPES_NONEMPTY = [s for s in SHAPES if 0 not in s]


def shape_size(shape):
    n = 1
    for d in shape:
        n *= d
    return n


@st.composite
def shaped_thresholds(draw, scores, shapes=SHAPES, mag=1e6, allow_inf=True):
    shape = draw(st.sampled_from(shapes))
    flat = draw(threshold_values(scores, shape_size(shape), mag, allow_inf))
    return dict(shape=list(shape), flat=flat)


def target_values(pop_sizes):
    """Targets: grid k/N for one of the given population sizes, half grid, ends, beyond."""
    pops = [p for p in pop_sizes if p > 0] or [1]

    @st.composite
    def one(draw):
        kind = draw(st.sampled_from(["grid", "grid", "half", "float", "float", "end", "beyond",
                                     "near"]))
        N = draw(st.sampled_from(pops))
        if kind == "grid":
            return draw(st.integers(0, N)) / N
        if kind == "half":
            return (draw(st.integers(0, N - 1)) + 0.5) / N
        if kind == "float":
            return draw(st.floats(min_value=-0.5, max_value=1.5, allow_nan=False))
        if kind == "end":
            return draw(st.sampled_from([0.0, 1.0]))
        if kind == "beyond":
            return draw(st.sampled_from([-1e-9, -0.1, -3.0, 1 + 1e-9, 1.1, 4.0]))
        k = draw(st.integers(0, N))
        return _ulp(k / N, draw(st.sampled_from([-1, 1])))

    return one()


def np_array(flat, shape, dtype=float):
    import numpy as np

    return np.asarray(flat, dtype=dtype).reshape(tuple(shape))


RNG_SEED = st.integers(0, 2**32 - 1)


# ------------------------------------------------------------------ kinds of callables
CALLABLE_KINDS = ("function", "lambda", "partial", "bound", "object", "dataclass")


class _Holder:
    """Carries a function; ``call`` is handed over as a bound method."""

    def __init__(self, fn):
        self.fn = fn

    def call(self, *a, **k):
        if not isinstance(self, _Holder):
            from .harness import Violation

            raise Violation("callable:wrong-receiver",
                            f"a bound method supplied as callable was invoked on a foreign receiver "
                            f"({type(self).__name__}) instead of being called as given")
        return self.fn(*a, **k)

    def __call__(self, *a, **k):
        return _Holder.call(self, *a, **k)


def wrap_callable(fn, kind):
    """The same callable in another of Python's shapes (all accept what ``fn`` accepts)."""
    import dataclasses
    import functools

    if kind == "function":
        return fn
    if kind == "lambda":
        return lambda *a, **k: fn(*a, **k)
    if kind == "partial":
        return functools.partial(fn)
    if kind == "bound":
        return _Holder(fn).call
    if kind == "object":
        return _Holder(fn)
    if kind == "dataclass":
        # a parametrised callable written as a plain dataclass: has __eq__, hence no __hash__
        @dataclasses.dataclass
        class Param:
            fn: object
            weight: float = 1.0

            def __call__(self, *a, **k):
                return self.fn(*a, **k)

        return Param(fn)
    raise ValueError(kind)
